package main

import "go/ast"

// Channel / select / WaitGroup rewriting for the root package is added in a
// later step; until then :chan behaves like the plain mode.

func (fc *fileCtx) chanAssign(st *ast.AssignStmt) ast.Stmt { return st }

func (fc *fileCtx) rewriteSelect(st *ast.SelectStmt) ast.Stmt {
	fc.rewriteBlock(st.Body)
	return st
}

func (fc *fileCtx) chanCall(x *ast.CallExpr, sel *ast.SelectorExpr) ast.Expr { return nil }
