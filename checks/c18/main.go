// C18 — compression never changes what the client decodes.
//
// Differential oracle over two sites that differ only by the gzip block: for
// every inner response (harness probe), static file with precompressed
// siblings and Accept-Encoding, the response of the gzip site must decode to
// the response of the plain site, name exactly the codings applied, never
// re-encode, keep Content-Length absent or right, and leave clients that did
// not offer gzip alone.
package main

import (
	"bytes"
	"compress/gzip"
	"fmt"
	"io"
	"os"
	"path/filepath"
	"strings"

	"verif/internal/kit"
)

var gzipBlocks = []string{"gzip", "gzip {\n\t\text *\n\t}", "gzip {\n\t\text .txt\n\t}", "gzip {\n\t\tnot /n\n\t}", "gzip {\n\t\tlevel 1\n\t}", "gzip {\n\t\tlevel 9\n\t}", "gzip {\n\t\tmin_length 10\n\t}", "gzip {\n\t\text *\n\t\tmin_length 64\n\t}"}

var acceptEnc = []string{"", "gzip", "gzip;q=0", "gzip;Q=0", "br", "zstd, gzip", "identity", "*", "br, gzip", "gzip, br, zstd", "zstd"}

type wcase struct {
	Casketfile string `json:"casketfile"`
	Request    string `json:"request"`
	Plain      string `json:"plain_site_response"`
	Gz         string `json:"gzip_site_response"`
}

func summary(r *kit.Rec) string {
	b := r.Body.Bytes()
	s := fmt.Sprintf("%d CE=%q CL=%q ETag=%q Vary=%q body[%d]", r.Status, r.Snap.Values("Content-Encoding"), r.Snap.Get("Content-Length"), r.Snap.Get("ETag"), r.Snap.Values("Vary"), len(b))
	if len(b) <= 48 {
		s += fmt.Sprintf("=%q", b)
	} else {
		s += fmt.Sprintf("=%q...", b[:48])
	}
	return s
}

func gunzip(b []byte) ([]byte, error) {
	zr, err := gzip.NewReader(bytes.NewReader(b))
	if err != nil {
		return nil, err
	}
	out, err := io.ReadAll(zr)
	if err != nil {
		return out, err
	}
	// nothing may follow the gzip stream
	return out, nil
}

func offersGzip(ae string) bool {
	for _, part := range strings.Split(ae, ",") {
		f := strings.Split(strings.TrimSpace(part), ";")
		if strings.TrimSpace(f[0]) != "gzip" && strings.TrimSpace(f[0]) != "*" {
			continue
		}
		q := "1"
		for _, p := range f[1:] {
			p = strings.TrimSpace(p)
			if strings.HasPrefix(strings.ToLower(p), "q=") { // (parameter names are case-insensitive)
				q = p[2:]
			}
		}
		if q == "0" || q == "0.0" {
			return false
		}
		if strings.TrimSpace(f[0]) == "gzip" {
			return true
		}
	}
	return false
}

// compare applies the oracle to one pair of responses; returns "" or (kind, message).
func compare(method, ae string, p, g *kit.Rec) (string, string) {
	if p.Status != g.Status {
		return "status-changed", fmt.Sprintf("status %d without gzip, %d with", p.Status, g.Status)
	}
	pce := strings.Join(p.Snap.Values("Content-Encoding"), ", ")
	gce := strings.Join(g.Snap.Values("Content-Encoding"), ", ")
	bodiless := method == "HEAD" || p.Status == 204 || p.Status == 304 || (p.Status >= 100 && p.Status < 200)
	added := ""
	switch {
	case gce == pce:
	case pce == "" && gce == "gzip":
		added = "gzip"
	case pce != "" && gce == pce+", gzip":
		added = "gzip"
	default:
		return "content-encoding-garbled", fmt.Sprintf("Content-Encoding %q without gzip, %q with", pce, gce)
	}
	if added != "" && pce != "" {
		return "already-encoded-response-encoded-again", fmt.Sprintf("inner response already had Content-Encoding %q, gzip added another layer (%q)", pce, gce)
	}
	if added != "" && !strings.Contains(ae, "gzip") {
		return "gzip-to-client-that-did-not-offer-it", fmt.Sprintf("Accept-Encoding %q, response Content-Encoding %q", ae, gce)
	}
	if added != "" && !offersGzip(ae) {
		return "gzip-to-client-that-refused-it(q=0)", fmt.Sprintf("Accept-Encoding %q, response Content-Encoding %q", ae, gce)
	}
	if bodiless {
		return "", ""
	}
	if cl := g.Snap.Get("Content-Length"); cl != "" && cl != fmt.Sprint(g.Body.Len()) {
		return "content-length-wrong", fmt.Sprintf("Content-Length %s, wire body %d bytes", cl, g.Body.Len())
	}
	if added == "" {
		if !bytes.Equal(p.Body.Bytes(), g.Body.Bytes()) {
			// maybe it was compressed without saying so
			if dec, err := gunzip(g.Body.Bytes()); err == nil && bytes.Equal(dec, p.Body.Bytes()) {
				return "gzip-applied-but-not-named", "body is gzip data but Content-Encoding does not say so"
			}
			return "body-changed", fmt.Sprintf("identity-coded bodies differ: %d vs %d bytes", p.Body.Len(), g.Body.Len())
		}
		return "", ""
	}
	dec, err := gunzip(g.Body.Bytes())
	if err != nil {
		return "gzip-named-but-body-does-not-decode", fmt.Sprintf("Content-Encoding gzip but: %v", err)
	}
	if !bytes.Equal(dec, p.Body.Bytes()) {
		return "decoded-body-differs", fmt.Sprintf("decoded %d bytes, plain site sent %d", len(dec), p.Body.Len())
	}
	return "", ""
}

// offersCoding reports whether an Accept-Encoding value lists coding (or *) with a non-zero quality.
func offersCoding(ae, coding string) bool {
	for _, part := range strings.Split(ae, ",") {
		f := strings.Split(part, ";")
		if n := strings.TrimSpace(f[0]); n != coding && n != "*" {
			continue
		}
		q := 1.0
		for _, p := range f[1:] {
			if p = strings.TrimSpace(p); strings.HasPrefix(strings.ToLower(p), "q=") {
				fmt.Sscanf(p[2:], "%g", &q)
			}
		}
		if q > 0 {
			return true
		}
	}
	return false
}

func main() {
	rep := kit.NewReport("C18", "exploration",
		"8 gzip blocks x (probe responses: 5 statuses x Content-Type set/unset x Content-Length right/absent x 8 pre-set Content-Encodings x 3 ETag forms x 10 write/flush patterns; static files with every subset of .gz/.br/.zst siblings) x 11 Accept-Encoding values x 4 paths x GET/HEAD, each served by a gzip site and by the same site without gzip and compared; distinct_nontrivial = outcome classes")
	kit.Init()
	kit.RegisterProbe()
	kit.Log.Off.Store(true)
	root := kit.TempDir("c18")
	defer os.RemoveAll(root)
	// static fixture: tK.txt with sibling subset K (bit0 .gz, bit1 .br, bit2 .zst)
	for k := 0; k < 8; k++ {
		name := fmt.Sprintf("t%d.txt", k)
		content := []byte(strings.Repeat(fmt.Sprintf("plain text of %s. ", name), 20))
		os.WriteFile(filepath.Join(root, name), content, 0o644)
		if k&1 != 0 {
			var b bytes.Buffer
			zw := gzip.NewWriter(&b)
			zw.Write(content)
			zw.Close()
			os.WriteFile(filepath.Join(root, name+".gz"), b.Bytes(), 0o644)
		}
		if k&2 != 0 {
			os.WriteFile(filepath.Join(root, name+".br"), []byte(strings.Repeat("BR-SIBLING-OF-"+name+" ", 12)), 0o644)
		}
		if k&4 != 0 {
			os.WriteFile(filepath.Join(root, name+".zst"), []byte(strings.Repeat("ZST-SIBLING-OF-"+name+" ", 12)), 0o644)
		}
	}
	os.MkdirAll(filepath.Join(root, "n"), 0o755)
	os.WriteFile(filepath.Join(root, "n", "t.txt"), []byte(strings.Repeat("under the excluded path. ", 10)), 0o644)

	// overlapping requests first (E2, deterministic): when pooled compressors turn out to be shared between requests,
	// the free-running sweep below (many requests at once on the real pools) would only crash on them
	overlapPhase(rep, root)
	if rep.ViolationCount() > 0 {
		rep.Capped("the sweep of single requests was skipped: overlapping requests already disagree with the same requests served alone")
		rep.Finish()
		return
	}

	statuses := []string{"200", "404", "304", "204", "301"}
	ctypes := []string{"", "hdr:Content-Type=text/plain"}
	ces := []string{"", "gzip", "br", "zstd", "deflate", "x-gzip", "GZIP", "br, gzip"} // (also a legacy name, another letter case, two codings)
	etags := []string{"", "hdr:ETag=\"abc\"", "hdr:ETag=W/\"abc\""}
	type pattern struct {
		name string
		ops  []string
		n    int // total payload length for Content-Length
	}
	patterns := []pattern{
		{"one-write", []string{"write:200xa"}, 200},
		{"two-writes", []string{"write:3xa", "write:197xb"}, 200},
		{"byte-writes", []string{"write:1xa", "write:1xb", "write:1xc", "write:1xd"}, 4},
		{"write-flush-write", []string{"write:100xa", "flush", "write:100xb"}, 200},
		{"flush-first", []string{"flush", "write:200xa"}, 200},
		{"no-body", nil, 0},
		{"big", []string{"write:5000xa"}, 5000},
		{"short", []string{"write:5xa"}, 5},
		// an informational header (Early Hints) before the final one; a second WriteHeader after the body has begun
		// (net/http ignores the latter; whatever wraps the writer must not change its mind because of it)
		{"early-hints-first", []string{"write:200xa"}, 200},
		{"writeheader-again-after-write", []string{"write:100xa", "status:200", "write:100xb"}, 200},
		// the body handed over through the writer's optional methods (io.WriteString, io.Copy): a wrapper that offers
		// them must treat the bytes as it treats Write's
		{"writestring", []string{"wstr:200xa"}, 200},
		{"write-then-writestring", []string{"write:100xa", "wstr:100xb"}, 200},
		{"flush-then-writestring", []string{"flush", "wstr:200xa"}, 200},
		{"copy", []string{"copy:200xa"}, 200},
		{"write-then-copy", []string{"write:100xa", "copy:100xb"}, 200},
		{"copy-big", []string{"copy:5000xa"}, 5000},
	}
	paths := []string{"/x", "/x.txt", "/n/x", "/x.png"}
	type reqSpec struct {
		path, probe, label string
	}
	var specs []reqSpec
	for _, st := range statuses {
		for _, ct := range ctypes {
			for _, cl := range []bool{false, true} {
				for _, ce := range ces {
					for _, et := range etags {
						for _, pt := range patterns {
							var ops []string
							if ct != "" {
								ops = append(ops, ct)
							}
							if cl {
								ops = append(ops, fmt.Sprintf("hdr:Content-Length=%d", pt.n))
							}
							if ce != "" {
								ops = append(ops, "hdr:Content-Encoding="+ce)
							}
							if et != "" {
								ops = append(ops, et)
							}
							if pt.name == "flush-first" {
								if st != "200" {
									continue // Flush commits 200
								}
								ops = append(ops, pt.ops...)
							} else {
								if pt.name == "early-hints-first" {
									ops = append(ops, "status:103")
								}
								ops = append(ops, "status:"+st)
								if st == "204" || st == "304" {
									// no body allowed
								} else {
									ops = append(ops, pt.ops...)
								}
							}
							for _, p := range paths {
								specs = append(specs, reqSpec{p, strings.Join(ops, ";"), "probe/" + pt.name + "/" + st})
							}
						}
					}
				}
			}
		}
	}
	for k := 0; k < 8; k++ {
		specs = append(specs, reqSpec{fmt.Sprintf("/t%d.txt", k), "", fmt.Sprintf("static/siblings=%03b", k)})
	}
	specs = append(specs, reqSpec{"/n/t.txt", "", "static/excluded-path"}, reqSpec{"/missing.txt", "", "static/404"}, reqSpec{"/n", "", "static/dir-redirect"})
	rep.Set("request_specs", len(specs))

	if os.Getenv("C18_ONLY_OVERLAP") != "" { // (debug aid)
		gzipBlocks = nil
	}
	for bi, blk := range gzipBlocks {
		cf := fmt.Sprintf("g.test:8080 {\n\troot %s\n\t%s\n\terrors\n\tverif_probe\n}\np.test:8080 {\n\troot %s\n\terrors\n\tverif_probe\n}\n", root, blk, root)
		l, err := kit.Load(cf, filepath.Join(root, "..", "Casketfile-c18"))
		if err != nil {
			rep.Broken("load: %v\n%s", err, cf)
		}
		srv := l.Server("")
		// wire conformance (first gzip block; thorough: all): the gzip site's responses are also read by a real client
		// from a genuine net/http server and compared with what the strict writer recorded
		var real *kit.RealServer
		if bi == 0 || rep.Thorough() {
			real = kit.NewRealServer(srv)
		}
		kit.Parallel(len(specs), func(si int) bool {
			sp := specs[si]
			local := map[string]int64{}
			for _, ae := range acceptEnc {
				for _, method := range []string{"GET", "HEAD"} {
					var hdr []string
					if ae != "" {
						hdr = append(hdr, "Accept-Encoding: "+ae)
					}
					if sp.probe != "" {
						hdr = append(hdr, "X-Probe: "+sp.probe)
					}
					pr, pv1, _ := kit.Serve(srv, kit.Get(method, sp.path, "p.test:8080", hdr...))
					gr, pv2, _ := kit.Serve(srv, kit.Get(method, sp.path, "g.test:8080", hdr...))
					rep.Eval(1)
					if real != nil && pv2 == nil && (ae == "gzip" || ae == "" || ae == "br, gzip") {
						rr, err := real.Do(kit.Get(method, sp.path, "g.test:8080", hdr...))
						if err != nil {
							rep.Broken("real server: %v", err)
						}
						rep.AddInt("wire_conformance_requests", 1)
						if d := kit.ConformanceDiff(gr, rr, false); len(d) > 0 {
							rep.Violation("C18/wire/response-read-by-a-real-client-differs-from-the-recorded-one", d[0], wcase{cf, kit.Get(method, sp.path, "g.test:8080", hdr...), summary(gr), strings.Join(d, "; ")})
						}
					}
					if pv1 != nil || pv2 != nil {
						rep.Violation("C18/panic", fmt.Sprintf("panic escaped: %v / %v", pv1, pv2), wcase{cf, kit.Get(method, sp.path, "g.test:8080", hdr...), "", ""})
						continue
					}
					// static files: the codings named were chosen by the server, so the client must have offered each of them
					// (checked on both sites: the sibling selection is the file server's, with or without gzip)
					if sp.probe == "" {
						for which, r := range map[string]*kit.Rec{"p.test:8080": pr, "g.test:8080": gr} {
							for _, c := range strings.Split(strings.Join(r.Snap.Values("Content-Encoding"), ","), ",") {
								if c = strings.TrimSpace(c); c != "" && c != "identity" && !offersCoding(ae, c) {
									rep.Violation("C18/coding-not-offered-by-the-client/static", fmt.Sprintf("Accept-Encoding %q answered with Content-Encoding %s", ae, c), wcase{cf, kit.Get(method, sp.path, which, hdr...), summary(pr), summary(gr)})
								}
							}
						}
					}
					kind, msg := compare(method, ae, pr, gr)
					if kind != "" {
						where := "probe"
						if sp.probe == "" {
							where = "static"
						}
						sig := "C18/" + kind + "/" + where
						if strings.Contains(sp.label, "flush-first") {
							sig += "/flush-before-write"
						}
						if kind == "already-encoded-response-encoded-again" {
							sig += "/" + strings.Join(pr.Snap.Values("Content-Encoding"), "+")
						}
						rep.Violation(sig, msg, wcase{cf, kit.Get(method, sp.path, "g.test:8080", hdr...), summary(pr), summary(gr)})
					}
					cl := "identity"
					if strings.Contains(strings.Join(gr.Snap.Values("Content-Encoding"), ","), "gzip") && !strings.Contains(strings.Join(pr.Snap.Values("Content-Encoding"), ","), "gzip") {
						cl = "gzip-applied"
					} else if len(pr.Snap.Values("Content-Encoding")) > 0 {
						cl = "pre-encoded-passed-through"
					}
					local[strings.SplitN(sp.label, "/", 2)[0]+"/"+cl+"/"+method]++
				}
			}
			rep.ClassN(local)
			return true
		})
		if real != nil {
			real.Close()
		}
		l.Close()
		if bi == 6 {
			rep.Sample(map[string]interface{}{"casketfile": cf, "request": kit.Get("GET", "/x.txt", "g.test:8080", "Accept-Encoding: gzip", "X-Probe: hdr:Content-Length=200;hdr:ETag=\"abc\";status:200;write:100xa;flush;write:100xb")})
		}
	}
	rep.Finish()
}
