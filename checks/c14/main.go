// C14 — backend in-flight and failure accounting is exact under concurrency.
//
// N request threads call the real (source-instrumented) proxy.Proxy.ServeHTTP
// on one upstream block under the cooperative scheduler; fake transports
// count simultaneous forwards and choose each outcome (ok / error / client
// cancel / panic); every schedule up to a preemption bound is explored and
// the invariants are evaluated at every scheduling point.
package main

import (
	"bytes"
	"context"
	"errors"
	"fmt"
	"io"
	"net/http"
	"os"
	"os/exec"
	"reflect"
	"runtime"
	"strings"
	"time"

	"github.com/tmpim/casket/casketfile"
	"github.com/tmpim/casket/caskethttp/httpserver"
	"github.com/tmpim/casket/caskethttp/proxy"
	"github.com/tmpim/casket/verifrt"
	"verif/internal/kit"
)

func hostsOf(u proxy.Upstream) proxy.HostPool {
	return reflect.ValueOf(u).Elem().FieldByName("Hosts").Interface().(proxy.HostPool)
}

type plainWriter struct {
	h      http.Header
	status int
	body   bytes.Buffer
}

func (w *plainWriter) Header() http.Header { return w.h }
func (w *plainWriter) WriteHeader(c int) {
	if w.status == 0 {
		w.status = c
	}
}
func (w *plainWriter) Write(p []byte) (int, error) {
	if w.status == 0 {
		w.status = 200
	}
	return w.body.Write(p)
}

const (
	outOK = iota
	outErr
	outCancel
	outPanic
	nOut
)

var outName = []string{"ok", "error", "client-cancel", "panic"}

// world is the harness-side state of one execution.
type world struct {
	cfg       config
	hosts     proxy.HostPool
	inflight  []int     // forwards inside RoundTrip per host
	maxSeen   []int     // maximum simultaneous forwards per host
	selMinC   [][]int64 // per request thread, per host: min Conns seen since its selection interval began
	selMinF   [][]int32 // likewise min Fails
	selecting []bool
	// failure model built from observed counter movements
	lastFails []int32
	lastConns []int64
	vid2tid   map[int]int
	slots     [][]int           // per request thread, per host: in-flight slots it holds (increments minus decrements it made)
	oblig     [][]time.Duration // per host: clock at which each outstanding failure was counted
	errs      []int             // per host: attempts that ended with a backend error
	failIncs  []int             // per host: increments of the fail counter seen
	events    []string
	outcomes  []string
	viol      string
	violKind  string
	ready     bool
}

type config struct {
	Backends    int    `json:"backends"`
	MaxConns    int    `json:"max_conns"`
	MaxFails    int    `json:"max_fails"`
	FailTimeout string `json:"fail_timeout"`
	TryDuration string `json:"try_duration"`
	Policy      string `json:"policy"`
	N           int    `json:"threads"`
	Outs        []int  `json:"allowed_outcomes"`
	HC          bool   `json:"health_check_round,omitempty"`         // a thread runs one active health-check round (probe succeeds) at any time
	UpLines     bool   `json:"backends_on_upstream_lines,omitempty"` // backends named by `upstream` lines inside the block, above the options
	HCFailFirst bool   `json:"health_check_fails_first,omitempty"`   // the health-check thread runs a round whose probes fail, then one whose probes succeed
}

func (c config) block() string {
	var names []string
	for i := 0; i < c.Backends; i++ {
		names = append(names, fmt.Sprintf("http://b%d.test", i))
	}
	opts := fmt.Sprintf(" policy %s\n max_conns %d\n max_fails %d\n fail_timeout %s\n try_duration %s\n try_interval 60ms\n}",
		c.Policy, c.MaxConns, c.MaxFails, c.FailTimeout, c.TryDuration)
	if c.UpLines {
		s := "proxy / {\n"
		for _, n := range names {
			s += " upstream " + n + "\n"
		}
		return s + opts
	}
	return fmt.Sprintf("proxy / %s {\n", strings.Join(names, " ")) + opts
}

type fakeRT struct {
	w  *world
	id int
}

func (t *fakeRT) RoundTrip(r *http.Request) (*http.Response, error) {
	w := t.w
	tid := r.Context().Value(tidKey{}).(int)
	// selection interval of this request thread ends here
	ft, _ := time.ParseDuration(w.cfg.FailTimeout)
	if w.selMinF[tid][t.id] >= int32(w.cfg.MaxFails) && ft > 0 {
		w.fail("chosen-while-down", fmt.Sprintf("request %d was forwarded to backend %d although it had >= max_fails (%d) unexpired failures during the whole selection interval (min seen %d)", tid, t.id, w.cfg.MaxFails, w.selMinF[tid][t.id]))
	}
	if w.cfg.MaxConns > 0 && w.selMinC[tid][t.id] >= int64(w.cfg.MaxConns) {
		// no scheduling point lies between the thread's own increment and this call,
		// so the minimum covers pre-increment observations only
		w.fail("chosen-while-full", fmt.Sprintf("request %d was forwarded to backend %d although it was at max_conns during the whole selection interval", tid, t.id))
	}
	w.selecting[tid] = false
	w.observe() // attributes this thread's own increment
	for h := range w.hosts {
		want := 0
		if h == t.id {
			want = 1
		}
		if w.slots[tid][h] != want {
			w.fail("slot-mismatch", fmt.Sprintf("request %d is being forwarded to backend %d while the in-flight counter of backend %d carries %d of its slots (want %d)", tid, t.id, h, w.slots[tid][h], want))
		}
	}
	w.inflight[t.id]++
	if w.inflight[t.id] > w.maxSeen[t.id] {
		w.maxSeen[t.id] = w.inflight[t.id]
	}
	w.events = append(w.events, fmt.Sprintf("r%d->b%d", tid, t.id))
	verifrt.Yield() // backend service time: others may run at no cost
	out := w.cfg.Outs[verifrt.Choose(len(w.cfg.Outs), "outcome")]
	w.inflight[t.id]--
	w.beginSelect(tid)
	w.events = append(w.events, fmt.Sprintf("r%d<-b%d:%s", tid, t.id, outName[out]))
	w.outcomes = append(w.outcomes, outName[out])
	switch out {
	case outErr:
		w.errs[t.id]++
		return nil, errors.New("backend error")
	case outCancel:
		return nil, context.Canceled
	case outPanic:
		panic("transport panic")
	}
	return &http.Response{StatusCode: 200, Header: http.Header{}, Body: io.NopCloser(strings.NewReader("ok")), ContentLength: -1, Request: r}, nil
}

type tidKey struct{}

// probeFail answers every active health probe with 503.
type probeFail struct{}

func (probeFail) RoundTrip(r *http.Request) (*http.Response, error) {
	return &http.Response{StatusCode: 503, Header: http.Header{}, Body: io.NopCloser(strings.NewReader("down")), Request: r}, nil
}

// probeOK answers every active health probe with 200.
type probeOK struct{}

func (probeOK) RoundTrip(r *http.Request) (*http.Response, error) {
	return &http.Response{StatusCode: 200, Header: http.Header{}, Body: io.NopCloser(strings.NewReader("up")), Request: r}, nil
}

func (w *world) fail(kind, msg string) {
	if w.viol == "" {
		w.viol, w.violKind = msg, kind
	}
}

func (w *world) beginSelect(tid int) {
	w.selecting[tid] = true
	for h := range w.hosts {
		w.selMinC[tid][h] = 1 << 40
		w.selMinF[tid][h] = 1 << 30
	}
	w.observe()
}

// observe updates the per-thread selection minima and the failure model; it
// runs at every scheduling point (state is stable: one thread runs at a time).
func (w *world) observe() {
	ft, _ := time.ParseDuration(w.cfg.FailTimeout)
	now := verifrt.Clock()
	for h, host := range w.hosts {
		c, f := host.Conns, host.Fails
		for tid := range w.selecting {
			if w.selecting[tid] {
				if c < w.selMinC[tid][h] {
					w.selMinC[tid][h] = c
				}
				if f < w.selMinF[tid][h] {
					w.selMinF[tid][h] = f
				}
			}
		}
		// in-flight slots: a counter movement seen now was made by the thread running now
		if d := c - w.lastConns[h]; d != 0 {
			vid := verifrt.CurID()
			tid, isReq := w.vid2tid[vid]
			if isReq {
				w.slots[tid][h] += int(d)
				if w.slots[tid][h] < 0 || w.slots[tid][h] > 1 {
					w.fail("slot-range", fmt.Sprintf("request %d holds %d in-flight slots on backend %d", tid, w.slots[tid][h], h))
				}
			} else {
				w.fail("conns-changed-by-non-request-thread", fmt.Sprintf("backend %d: in-flight counter moved by %d in thread t%d", h, d, vid))
			}
			w.lastConns[h] = c
		}
		// failure obligations
		if f != w.lastFails[h] {
			w.events = append(w.events, fmt.Sprintf("[fails(b%d) %d->%d @%v seen-by=t%d]", h, w.lastFails[h], f, now, verifrt.CurID()))
		}
		for f > w.lastFails[h] {
			w.oblig[h] = append(w.oblig[h], now)
			w.lastFails[h]++
			w.failIncs[h]++
			if w.failIncs[h] > w.errs[h] {
				w.fail("failure-counted-without-backend-failure", fmt.Sprintf("backend %d: fail counter incremented %d times after %d failed attempts (a client cancellation or a success is not a backend failure)", h, w.failIncs[h], w.errs[h]))
			}
		}
		for f < w.lastFails[h] {
			// a decrement must release a failure that was counted at least fail_timeout ago
			if len(w.oblig[h]) == 0 {
				w.fail("fails-decrement-without-failure", fmt.Sprintf("backend %d: fail count decremented to %d with no outstanding failure", h, f))
				w.lastFails[h] = f
				break
			}
			if w.oblig[h][0]+ft > now {
				w.fail("failure-forgotten-early", fmt.Sprintf("backend %d: a failure counted at %v was released at %v, before fail_timeout %v", h, w.oblig[h][0], now, ft))
			}
			w.oblig[h] = w.oblig[h][1:]
			w.lastFails[h]--
		}
	}
}

func (w *world) invariant() string {
	w.observe()
	if w.viol != "" {
		return w.viol
	}
	for h, host := range w.hosts {
		if w.cfg.MaxConns > 0 && w.inflight[h] > w.cfg.MaxConns {
			w.violKind = "I1-maxconns-overshoot/select-increment-window"
			return fmt.Sprintf("backend %d: %d requests are being forwarded simultaneously, max_conns is %d", h, w.inflight[h], w.cfg.MaxConns)
		}
		if int64(w.inflight[h]) > host.Conns {
			w.violKind = "I2-inflight-above-conns"
			return fmt.Sprintf("backend %d: %d forwards in flight but in-flight counter is %d", h, w.inflight[h], host.Conns)
		}
		if host.Conns > int64(w.cfg.N) || host.Conns < 0 {
			w.violKind = "I2-conns-out-of-range"
			return fmt.Sprintf("backend %d: in-flight counter %d with %d requests", h, host.Conns, w.cfg.N)
		}
		if host.Fails < 0 {
			w.violKind = "I4-fails-negative"
			return fmt.Sprintf("backend %d: fail counter %d", h, host.Fails)
		}
	}
	return ""
}

type c14case struct {
	Block   string   `json:"upstream_block"`
	Threads int      `json:"threads"`
	Bound   int      `json:"preemption_bound"`
	Choices []int    `json:"choices"`
	Events  []string `json:"events"`
	Failure string   `json:"failure"`
}

func explore(rep *kit.Report, cfg config, bound int) {
	var w *world
	body := func() {
		ups, err := proxy.NewStaticUpstreams(casketfile.NewDispenser("Casketfile", strings.NewReader(cfg.block())), "")
		if err != nil {
			panic(err)
		}
		w = &world{cfg: cfg, hosts: hostsOf(ups[0])}
		n := len(w.hosts)
		w.inflight, w.maxSeen, w.lastFails = make([]int, n), make([]int, n), make([]int32, n)
		w.lastConns = make([]int64, n)
		w.errs, w.failIncs = make([]int, n), make([]int, n)
		w.vid2tid = map[int]int{}
		w.slots = make([][]int, cfg.N)
		for t := range w.slots {
			w.slots[t] = make([]int, n)
		}
		w.oblig = make([][]time.Duration, n)
		w.selecting = make([]bool, cfg.N)
		w.selMinC, w.selMinF = make([][]int64, cfg.N), make([][]int32, cfg.N)
		for i, h := range w.hosts {
			h.ReverseProxy.Transport = &fakeRT{w: w, id: i}
		}
		p := proxy.Proxy{Upstreams: ups, Next: httpserver.EmptyNext}
		for t := 0; t < cfg.N; t++ {
			w.selMinC[t], w.selMinF[t] = make([]int64, n), make([]int32, n)
		}
		w.ready = true
		if cfg.HC {
			verifrt.GoNamed("health-check", func() {
				if cfg.HCFailFirst {
					proxy.VerifHealthCheck(ups[0], "/health", probeFail{})
					w.events = append(w.events, "health-check-round-failed")
				}
				proxy.VerifHealthCheck(ups[0], "/health", probeOK{})
				w.events = append(w.events, "health-check-round-done")
			})
		}
		for t := 0; t < cfg.N; t++ {
			t := t
			verifrt.GoNamed(fmt.Sprintf("req%d", t), func() {
				defer func() {
					if r := recover(); r != nil {
						if s, ok := r.(string); !ok || s != "transport panic" {
							panic(r)
						}
						w.events = append(w.events, fmt.Sprintf("r%d:panic-contained", t))
					}
					w.selecting[t] = false
				}()
				w.vid2tid[verifrt.CurID()] = t
				r := kit.MustReq(kit.Get("GET", "/x", "h"))
				r.RemoteAddr = fmt.Sprintf("10.0.0.%d:1", t+1)
				if cfg.Policy == "ip_hash" {
					r.RemoteAddr = "10.0.0.1:1" // the same key for every request
				}
				r = r.WithContext(context.WithValue(r.Context(), tidKey{}, t))
				w.beginSelect(t)
				pw := &plainWriter{h: http.Header{}}
				st, _ := p.ServeHTTP(pw, r)
				w.events = append(w.events, fmt.Sprintf("r%d:done(%d)", t, st))
			})
		}
	}
	seen := map[uint64]bool{}
	visit := func() {
		if w == nil || !w.ready {
			return
		}
		k := uint64(14695981039346656037)
		mix := func(v int64) { k = (k ^ uint64(v)) * 1099511628211 }
		for h, host := range w.hosts {
			mix(host.Conns)
			mix(int64(host.Fails))
			mix(int64(w.inflight[h]))
		}
		for _, s := range w.selecting {
			if s {
				mix(1)
			} else {
				mix(2)
			}
		}
		mix(int64(len(w.events)))
		mix(int64(verifrt.Clock() / time.Millisecond))
		seen[k] = true
	}
	// every kind of failure seen in this scenario, with the events of the first execution that showed it
	// (the explorer itself keeps only the first failing execution, which a known finding may occupy)
	kinds := map[string]c14case{}
	note := func(msg string) {
		if msg == "" || w == nil {
			return
		}
		k := w.violKind
		if k == "" {
			k = "check"
		}
		if _, ok := kinds[k]; !ok {
			kinds[k] = c14case{cfg.block(), cfg.N, bound, nil, append([]string{}, w.events...), msg}
		}
	}
	inv := func() string {
		if w == nil || !w.ready {
			return ""
		}
		msg := w.invariant()
		note(msg)
		return msg
	}
	check := func(res verifrt.Result) (out string) {
		defer func() { note(out) }()
		rep.Eval(1)
		rep.AddInt("transitions", int64(res.Steps))
		w.observe()
		if w.viol != "" {
			return w.viol
		}
		for h, host := range w.hosts {
			if host.Conns != 0 {
				w.violKind = "I3-conns-not-zero-at-quiescence"
				return fmt.Sprintf("backend %d: in-flight counter is %d after all requests finished", h, host.Conns)
			}
			if host.Fails != 0 {
				w.violKind = "I4-fails-not-zero-at-quiescence"
				return fmt.Sprintf("backend %d: fail counter is %d after all requests and timers finished", h, host.Fails)
			}
			if w.inflight[h] != 0 {
				return "harness: inflight not zero"
			}
			if cfg.FailTimeout != "0s" && w.failIncs[h] != w.errs[h] {
				w.violKind = "backend-failure-not-counted"
				return fmt.Sprintf("backend %d: %d attempts failed but the fail counter was incremented %d times", h, w.errs[h], w.failIncs[h])
			}
			for t := range w.slots {
				if w.slots[t][h] != 0 {
					w.violKind = "slot-leak"
					return fmt.Sprintf("request %d still holds %d slots on backend %d at quiescence", t, w.slots[t][h], h)
				}
			}
		}
		return ""
	}
	st := verifrt.Explore(bound, verifrt.Options{MaxSteps: 20000, Invariant: inv, Visit: visit}, body, check, rep.Expired)
	if st.Capped {
		rep.Capped(fmt.Sprintf("deadline reached inside an exploration (preemption bound %d)", bound))
		rep.AddInt("scenarios_cut_short", 1)
	} else {
		rep.AddInt("scenarios_completed", 1)
	}
	if os.Getenv("VERIF_DEBUG") != "" {
		fmt.Fprintf(os.Stderr, "DEBUG execs=%d depth=%d bound=%d N=%d %s\n", st.Executions, st.MaxDepth, bound, cfg.N, strings.ReplaceAll(cfg.block(), "\n", ";"))
	}
	rep.AddInt("schedules", st.Executions)
	rep.AddInt("states", int64(len(seen)))
	rep.AddInt(fmt.Sprintf("schedules_N%d_bound%d", cfg.N, bound), st.Executions)
	if st.FirstFail != nil {
		// replay to recover the event trace and the violation kind
		verifrt.Run(st.FirstPrefix, verifrt.Options{MaxSteps: 20000, Invariant: inv}, body)
		w.observe()
		kind := w.violKind
		if kind == "" {
			kind = st.FirstFail.FailKind
			check(verifrt.Result{})
			if w.violKind != "" {
				kind = w.violKind
			}
		}
		rep.Violation("C14/"+kind, st.FirstFail.Failure, c14case{cfg.block(), cfg.N, bound, st.FirstPrefix, w.events, st.FirstFail.Failure})
		delete(kinds, kind)
	}
	for k, c := range kinds {
		rep.Violation("C14/"+k, c.Failure, c)
	}
	rep.Class(fmt.Sprintf("N=%d/backends=%d/max_conns=%d/retry=%v/failcount=%v/health-check=%v/upstream-lines=%v/hash=%v", cfg.N, cfg.Backends, cfg.MaxConns, cfg.TryDuration != "0s", cfg.FailTimeout != "0s", cfg.HC, cfg.UpLines, cfg.Policy == "ip_hash"))
	if cfg.Backends == 2 && cfg.MaxConns == 1 && cfg.Policy == "first" {
		rep.Sample(map[string]interface{}{"upstream_block": cfg.block(), "threads": cfg.N, "preemption_bound": bound, "schedules": st.Executions, "example_events": w.events})
	}
}

// racePass builds the free-running companion with -race against the same
// overlay and scans its report for data races that involve a plain
// (non-atomic) write in casket code.
func racePass(rep *kit.Report) {
	ov := os.Getenv("VERIF_OVERLAY")
	if ov == "" {
		rep.Set("race_pass", "skipped: no overlay in environment")
		return
	}
	tmp := os.Getenv("TMPDIR")
	bin := tmp + "/c14race"
	args := []string{"build", "-race"}
	if mf := os.Getenv("VERIF_MODFILE"); mf != "" {
		args = append(args, "-modfile="+mf)
	}
	args = append(args, "-overlay", ov, "-o", bin, "./checks/c14race")
	cmd := exec.Command("go", args...)
	cmd.Dir = os.Getenv("VERIF_SRC")
	if out, err := cmd.CombinedOutput(); err != nil {
		rep.Broken("race pass build failed: %v\n%s", err, out)
	}
	run := exec.Command(bin)
	run.Env = append(os.Environ(), "GORACE=halt_on_error=0 history_size=2")
	out, _ := run.CombinedOutput()
	text := string(out)
	if !strings.Contains(text, "RACE-PASS-DONE") {
		// a panic in a goroutine that the proxy started (the fail_timeout timer, say) ends the free-running process:
		// that is the code under test failing, as long as the top frame after the panic lies in casket
		if i := strings.Index(text, "\npanic: "); i >= 0 || strings.HasPrefix(text, "panic: ") {
			if strings.Contains(text[max(i, 0):], "github.com/tmpim/casket/caskethttp/proxy.") {
				msg := strings.SplitN(strings.TrimPrefix(text[max(i, 0):], "\n"), "\n", 2)[0]
				rep.Violation("C14/process-terminated-in-the-free-running-pass", "concurrent proxied requests (succeeding, failing, cancelled, panicking backends) ended the process: "+msg, c14case{Failure: tail(text, 1200)})
				return
			}
		}
		rep.Broken("race pass did not complete: %s", tail(text, 1500))
	}
	blocks := strings.Split(text, "WARNING: DATA RACE")
	reports, plain := 0, 0
	var first string
	for _, b := range blocks[1:] {
		reports++
		if i := strings.Index(b, "=================="); i >= 0 {
			b = b[:i]
		}
		// sections: "Write at ... by goroutine N:" / "Previous write at ..." followed by frames
		lines := strings.Split(b, "\n")
		for i, ln := range lines {
			l := strings.TrimSpace(ln)
			if (strings.HasPrefix(l, "Write at") || strings.HasPrefix(l, "Previous write at")) && i+1 < len(lines) {
				top := strings.TrimSpace(lines[i+1])
				if strings.HasPrefix(top, "github.com/tmpim/casket/") {
					plain++
					if first == "" {
						first = tail(b, 1800)
					}
					break
				}
			}
		}
	}
	rep.Set("race_pass", fmt.Sprintf("free-running -race companion: 5 policies x 4 goroutines x 200 requests; %d race reports, %d involving a plain write in casket code", reports, plain))
	if plain > 0 {
		rep.Violation("C14/race/plain-write", "data race with a non-atomic write in casket code (free-running -race pass)", map[string]interface{}{"report": first})
	}
}

func tail(s string, n int) string {
	if len(s) > n {
		return s[len(s)-n:]
	}
	return s
}

func main() {
	rep := kit.NewReport("C14", "model_checking",
		"N concurrent requests through the instrumented proxy.ServeHTTP on one upstream block: backends {1,2} x max_conns {0,1,2} x max_fails {1,2} x fail_timeout {0,10s} x try_duration {0,50ms (two attempts)} x policy {first, round_robin, least_conn}; every per-attempt outcome in {ok,error,client-cancel,panic}; for counted failures also with an active health-check thread (one successful round, or a failing round followed by a successful one); all schedules up to the preemption bound; invariants at every scheduling point; distinct_nontrivial = configuration classes")
	kit.Init()
	if !rep.IsWorker() {
		rep.Assume("third-party/net/http code and the fake transports are atomic between scheduling points; plain (unsynchronised) accesses are covered by the separate free-running -race pass")
		rep.Assume("client cancellation is modelled as the transport returning context.Canceled; the response writer is not a CloseNotifier/Flusher so proxy starts no channel-based helper goroutines")
		rep.RunWorkers(16)
		if rep.Thorough() {
			highest := -1
			for L := 0; L <= 3; L++ {
				if n, _ := rep.Extra[fmt.Sprintf("shards_that_completed_bound_%d", L)].(int64); n == 16 {
					highest = L
				}
			}
			rep.Set("highest_preemption_bound_completed_for_every_configuration", highest)
		}
		rep.Set("traces_validated_against_impl", rep.Evals())
		rep.Set("trace_validation", "every explored execution is an execution of the instrumented implementation itself")
		racePass(rep)
		rep.Finish()
	}
	runtime.GOMAXPROCS(1)
	if rep.Mine(0) {
		// the failure threshold as written: a backend with fewer unexpired failures than max_fails is up, whatever the number
		for _, mf := range []string{"1", "2", "2147483647", "2147483648", "4294967296", "4294967297", "999999999999"} {
			text := fmt.Sprintf("proxy / http://b0.test {\n max_fails %s\n fail_timeout 10s\n}", mf)
			ups, err := proxy.NewStaticUpstreams(casketfile.NewDispenser("Casketfile", strings.NewReader(text)), "")
			rep.Eval(1)
			if err != nil {
				rep.Class("max_fails-value/rejected-by-the-parser")
				continue
			}
			h := hostsOf(ups[0])[0]
			r := kit.MustReq(kit.Get("GET", "/x", "h"))
			for fails := int32(0); fails <= 1; fails++ {
				if mf == "1" && fails == 1 {
					continue
				}
				h.Fails = fails
				if ups[0].Select(r) == nil {
					rep.Violation("C14/down-below-max_fails", fmt.Sprintf("max_fails %s: the backend is treated as down with %d unexpired failures", mf, fails), c14case{Block: text, Failure: fmt.Sprintf("Select returned nil with Fails=%d", fails)})
				}
			}
			h.Fails = 0
			rep.Class("max_fails-value/accepted")
		}
	}
	if rep.Thorough() {
		// iterative context bounding: every configuration with at most L preemptions, for L = 0, 1, 2, 3; a level that
		// was completed for all configurations before the deadline is recorded (a level subsumes the ones below it)
		for L := 0; L <= 3; L++ {
			item := 0
			for _, N := range []int{2, 3} {
				for _, be := range []int{1, 2} {
					for _, mc := range []int{0, 1, 2} {
						for _, mf := range []int{1, 2} {
							for _, ft := range []string{"0s", "10s"} {
								for _, td := range []string{"0s", "50ms"} {
									for _, pol := range []string{"first", "round_robin", "least_conn"} {
										if (be == 1 && pol != "first") || (mf == 2 && ft == "0s") {
											continue
										}
										item++
										if !rep.Mine(item) {
											continue
										}
										if rep.Expired() {
											rep.Capped(fmt.Sprintf("deadline reached at preemption bound %d", L))
											rep.Finish()
										}
										explore(rep, config{be, mc, mf, ft, td, pol, N, []int{outOK, outErr, outCancel, outPanic}, false, false, false}, L)
										if N == 2 && mc == 0 && ft != "0s" && pol == "first" {
											explore(rep, config{be, mc, mf, ft, td, pol, N, []int{outOK, outErr}, true, false, false}, L)
											explore(rep, config{be, mc, mf, ft, td, pol, N, []int{outOK, outErr}, true, false, true}, L)
										}
									}
								}
							}
						}
					}
				}
			}
			if !rep.Expired() {
				rep.AddInt(fmt.Sprintf("shards_that_completed_bound_%d", L), 1)
			}
		}
		rep.Finish()
	}
	item := 0
	for _, N := range []int{2, 3} {
		for _, be := range []int{1, 2} {
			for _, mc := range []int{0, 1, 2} {
				for _, mf := range []int{1, 2} {
					for _, ft := range []string{"0s", "10s"} {
						for _, td := range []string{"0s", "50ms"} { // 50ms with try_interval 60ms: at most two attempts per request
							for _, pol := range []string{"first", "round_robin", "least_conn"} {
								if be == 1 && pol != "first" {
									continue
								}
								if mf == 2 && ft == "0s" {
									continue
								}
								bound := 2
								outs := []int{outOK, outErr, outCancel, outPanic}
								if N == 3 {
									if !rep.Thorough() {
										// quick: three threads only for the max_conns window, bound 1, ok/error
										if mc == 0 || td != "0s" || mf == 2 {
											continue
										}
										bound = 1
										outs = []int{outOK, outErr}
									}
								} else if rep.Thorough() {
									bound = 3
								}
								if td != "0s" && !rep.Thorough() {
									// retries multiply attempts: quick explores them with one preemption
									// (and without the cancel outcome, which ends the request like ok does)
									outs = []int{outOK, outErr, outPanic}
									if N == 2 {
										bound = 1
									}
									if be == 2 {
										outs = []int{outOK, outErr}
									}
								}
								if pol == "least_conn" && !rep.Thorough() {
									// its random tie-breaks multiply the schedules: reduced in the quick tier
									if N == 3 {
										continue
									}
									if td != "0s" {
										bound = 0
									}
								}
								item++
								if !rep.Mine(item) {
									continue
								}
								if rep.Expired() {
									rep.Capped("deadline reached")
									rep.Finish()
								}
								explore(rep, config{be, mc, mf, ft, td, pol, N, outs, false, false, false}, bound)
								if N == 2 && mc == 1 && ft != "0s" && td == "0s" && pol == "first" {
									// the same block written with `upstream` lines above its options
									explore(rep, config{be, mc, mf, ft, td, pol, N, []int{outOK, outErr}, false, true, false}, bound)
								}
								if N == 2 && be == 2 && mc == 1 && mf == 1 && td == "0s" && pol == "round_robin" {
									// a hashing policy meets the connection cap (both requests carry the same key)
									explore(rep, config{be, mc, mf, ft, td, "ip_hash", N, []int{outOK, outErr}, false, false, false}, bound)
								}
								if N == 2 && mc == 0 && ft != "0s" && td == "0s" && pol == "first" {
									// the same traffic with an active health-check round (successful probes) running at any time
									explore(rep, config{be, mc, mf, ft, td, pol, N, []int{outOK, outErr}, true, false, false}, bound)
									// ... and with a round of failing probes before the successful one (the backend is marked unhealthy, then recovers)
									explore(rep, config{be, mc, mf, ft, td, pol, N, []int{outOK, outErr}, true, false, true}, bound)
								}
							}
						}
					}
				}
			}
		}
	}
	rep.Finish()
}
