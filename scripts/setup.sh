#!/bin/bash
# Builds every check once (offline) so that the Go build cache is warm.
export GOFLAGS=-mod=mod GOPROXY=off GOSUMDB=off GOTOOLCHAIN=local
cd "$(dirname "$0")/.." || exit 1
rc=0
for d in checks/*/; do
  id=$(basename "$d" | tr 'a-z' 'A-Z')
  scripts/vcheck build "$id" || rc=1
done
exit $rc
