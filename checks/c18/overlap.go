// C18, overlapping requests (E2): the gzip middleware keeps its compressors
// in per-level pools, so what one request does with a compressor (give it
// back twice, give it back while still using it, leave it unreset) shows
// only in requests that come later and overlap. After every prologue of a
// small menu, two requests run as threads of the cooperative scheduler on the
// source-instrumented gzip package (pool Get/Put, every probe operation and
// every write that reaches the connection are scheduling points); every
// interleaving up to the preemption bound is explored, and each client must
// decode exactly what it decodes when its request is served alone.
package main

import (
	"bytes"
	"fmt"
	"path/filepath"
	"strings"

	"github.com/tmpim/casket/verifrt"
	"verif/internal/kit"
)

type ocase struct {
	Casketfile string   `json:"casketfile"`
	Prologue   []string `json:"prologue_requests"`
	Requests   []string `json:"overlapping_requests"`
	Bound      int      `json:"preemption_bound"`
	Schedule   []int    `json:"schedule"`
	Failure    string   `json:"failure"`
}

type oreq struct {
	name, method, ae, probe string
}

func (q oreq) raw(host string, letters string) string {
	p := q.probe
	// give each of the two overlapping requests its own payload letters
	p = strings.NewReplacer("xA", "x"+letters[:1], "xB", "x"+letters[1:2]).Replace(p)
	hdr := []string{"X-Probe: " + p}
	if q.ae != "" {
		hdr = append(hdr, "Accept-Encoding: "+q.ae)
	}
	return kit.Get(q.method, "/x.txt", host, hdr...)
}

// what a client makes of a response: status, codings named, decoded body
func decoded(r *kit.Rec, pv interface{}) string {
	if pv != nil {
		return fmt.Sprintf("panic escaped: %v", pv)
	}
	if r == nil {
		return "no response"
	}
	ce := strings.Join(r.Snap.Values("Content-Encoding"), ", ")
	b := r.Body.Bytes()
	if ce == "gzip" && r.Method != "HEAD" && len(b) > 0 {
		d, err := gunzip(b)
		if err != nil {
			return fmt.Sprintf("%d CE=%q body does not decode: %v (after %d decoded bytes)", r.Status, ce, err, len(d))
		}
		b = d
	}
	s := fmt.Sprintf("%d CE=%q CL=%q decoded[%d]", r.Status, ce, r.Snap.Get("Content-Length"), len(b))
	if len(b) > 0 {
		// run-length summary keeps the replay file readable
		var rl bytes.Buffer
		for i := 0; i < len(b); {
			j := i
			for j < len(b) && b[j] == b[i] {
				j++
			}
			fmt.Fprintf(&rl, "%c%d", b[i], j-i)
			i = j
		}
		s += "=" + rl.String()
	}
	return s
}

func overlapPhase(rep *kit.Report, root string) {
	reqMenu := []oreq{
		{"two-writes", "GET", "gzip", "hdr:Content-Type=text/plain;status:200;write:300xA;write:300xB"},
		{"write-flush-write", "GET", "gzip", "hdr:Content-Type=text/plain;status:200;write:300xA;flush;write:300xB"},
		{"error-after-body-began", "GET", "gzip", "hdr:Content-Type=text/plain;status:200;write:300xA;ret:500"},
		{"error-before-body", "GET", "gzip", "ret:404"},
		{"identity-client", "GET", "", "hdr:Content-Type=text/plain;status:200;write:300xA;write:300xB"},
		{"head", "HEAD", "gzip", "hdr:Content-Type=text/plain;status:200;write:300xA"},
		{"panic-after-write", "GET", "gzip", "hdr:Content-Type=text/plain;status:200;write:300xA;panic"},
		{"not-modified", "GET", "gzip", "hdr:Content-Type=text/plain;status:304"},
		{"no-content", "GET", "gzip", "status:204"},
	}
	// prologues: requests served one after the other before the overlapping pair
	proMenu := [][]int{nil, {0}, {2}, {3}, {5}, {6}, {2, 2}, {1, 2}, {7}, {8}}
	pairs := [][2]int{{0, 0}, {0, 1}, {1, 1}, {0, 2}, {1, 4}, {0, 5}, {2, 2}, {1, 6}}
	blocks := []string{"gzip", "gzip {\n\t\tlevel 1\n\t}"}
	bound := 2
	if !rep.Thorough() {
		pairs = pairs[:5]
		blocks = blocks[:1]
	} else {
		bound = 3
		for a := range reqMenu {
			for b := a; b < len(reqMenu); b++ {
				dup := false
				for _, p := range pairs {
					dup = dup || p == [2]int{a, b}
				}
				if !dup {
					pairs = append(pairs, [2]int{a, b})
				}
			}
		}
	}
	kit.IOPoint = verifrt.Point
	defer func() { kit.IOPoint = nil }()
	for _, blk := range blocks {
		// (httpserver adds an `errors` line to every site that has `gzip`, so a site "without errors" does not exist;
		// the second variant gives the error handler a page of its own to send through the compressor)
		for _, withErrors := range []bool{false, true} {
			errs := ""
			if withErrors {
				errs = "\terrors {\n\t\t500 " + filepath.Join(root, "t0.txt") + "\n\t}\n"
			}
			if withErrors && !rep.Thorough() {
				continue
			}
			cf := fmt.Sprintf("g.test:8080 {\n\troot %s\n\t%s\n%s\tverif_probe\n}\n", root, blk, errs)
			l, err := kit.Load(cf, filepath.Join(root, "..", "Casketfile-c18"))
			if err != nil {
				rep.Broken("load: %v\n%s", err, cf)
			}
			srv := l.Server("")
			for _, pro := range proMenu {
				for _, pair := range pairs {
					if rep.Expired() {
						rep.Capped("deadline reached before every overlap scenario was explored")
						l.Close()
						return
					}
					var proRaw []string
					for _, i := range pro {
						proRaw = append(proRaw, reqMenu[i].raw("g.test:8080", "pq"))
					}
					raws := []string{reqMenu[pair[0]].raw("g.test:8080", "ab"), reqMenu[pair[1]].raw("g.test:8080", "cd")}
					// reference: each request served alone (outside the scheduler, untouched pools)
					var want [2]string
					for t := range raws {
						r, pv, _ := kit.Serve(srv, raws[t])
						want[t] = decoded(r, pv)
					}
					var got [2]string
					body := func() {
						verifrt.ResetPools()
						got = [2]string{"did not finish", "did not finish"}
						for _, p := range proRaw {
							kit.Serve(srv, p)
						}
						for t := range raws {
							t := t
							verifrt.GoNamed(fmt.Sprintf("req%d", t), func() {
								r, pv, _ := kit.Serve(srv, raws[t])
								got[t] = decoded(r, pv)
							})
						}
					}
					outcomes := map[string]bool{}
					check := func(res verifrt.Result) string {
						rep.Eval(1)
						rep.AddInt("overlap_transitions", int64(res.Steps))
						outcomes[got[0]+"|"+got[1]] = true
						for t := range raws {
							if got[t] != want[t] {
								return fmt.Sprintf("request %d (%s) overlapping with %s: the client decodes %s; served alone it decodes %s", t, reqMenu[pair[t]].name, reqMenu[pair[1-t]].name, got[t], want[t])
							}
						}
						return ""
					}
					st := verifrt.Explore(bound, verifrt.Options{MaxSteps: 20000}, body, check, rep.Expired)
					if st.Capped {
						rep.Capped(fmt.Sprintf("deadline reached inside an overlap exploration (preemption bound %d)", bound))
					} else {
						rep.AddInt("overlap_scenarios_completed", 1)
					}
					rep.AddInt("overlap_schedules", st.Executions)
					rep.AddInt("overlap_distinct_outcomes", int64(len(outcomes)))
					if st.MaxDepth > 0 {
						rep.Set("overlap_max_schedule_depth", st.MaxDepth)
					}
					if st.FirstFail != nil {
						kind := "decoded-body-differs"
						if strings.Contains(st.FirstFail.Failure, "does not decode") {
							kind = "gzip-named-but-body-does-not-decode"
						}
						rep.Violation("C18/overlap/"+kind, st.FirstFail.Failure, ocase{cf, proRaw, raws, bound, st.FirstPrefix, st.FirstFail.Failure})
					}
					rep.Class(fmt.Sprintf("overlap/%s+%s/error-page=%v", reqMenu[pair[0]].name, reqMenu[pair[1]].name, withErrors))
				}
			}
			l.Close()
		}
	}
	rep.Set("overlap_preemption_bound", bound)
}
