package verifrt

import (
	"math/rand"
	"net/http"
	"sync"
	"sync/atomic"
	"time"
)

// ---- atomics: a scheduling point, then the real operation ----

func AtomicAddInt64(p *int64, d int64) int64 {
	if S != nil {
		S.point(false)
	}
	return atomic.AddInt64(p, d)
}
func AtomicAddInt32(p *int32, d int32) int32 {
	if S != nil {
		S.point(false)
	}
	return atomic.AddInt32(p, d)
}
func AtomicAddUint32(p *uint32, d uint32) uint32 {
	if S != nil {
		S.point(false)
	}
	return atomic.AddUint32(p, d)
}
func AtomicLoadInt64(p *int64) int64 {
	if S != nil {
		S.point(false)
	}
	return atomic.LoadInt64(p)
}
func AtomicLoadInt32(p *int32) int32 {
	if S != nil {
		S.point(false)
	}
	return atomic.LoadInt32(p)
}
func AtomicStoreInt32(p *int32, v int32) {
	if S != nil {
		S.point(false)
	}
	atomic.StoreInt32(p, v)
}
func AtomicStoreInt64(p *int64, v int64) {
	if S != nil {
		S.point(false)
	}
	atomic.StoreInt64(p, v)
}
func AtomicCompareAndSwapInt32(p *int32, o, n int32) bool {
	if S != nil {
		S.point(false)
	}
	return atomic.CompareAndSwapInt32(p, o, n)
}

// ---- virtual time ----

func Now() time.Time {
	if S == nil {
		return time.Now()
	}
	return base.Add(S.clock)
}

func Since(t time.Time) time.Duration {
	if S == nil {
		return time.Since(t)
	}
	return Now().Sub(t)
}

// Sleep suspends the thread for d of virtual time. Time may pass at any
// moment, so a sleeper is enabled whenever no other sleeper is due earlier.
func Sleep(d time.Duration) {
	s := S
	if s == nil {
		time.Sleep(d)
		return
	}
	if d <= 0 {
		s.point(true)
		return
	}
	cur := s.cur
	cur.sleeping = true
	cur.deadline = s.clock + d
	cur.waitDesc = "sleep"
	s.point(true)
	// resumed: point() cleared sleeping and advanced the clock
	if cur.sleeping {
		panic("verifrt: resumed while still sleeping")
	}
}

// ---- randomness: an enumerated choice ----

// RandInt replaces math/rand.Int: the instrumented callers only test
// x % count == 0, for which {0,1} reaches every branch combination.
func RandInt() int {
	if S == nil {
		return rand.Int()
	}
	return Choose(2, "rand")
}

// RandMod replaces rand.Int() % n where the caller only tests the result
// against zero: for n <= 1 the result is 0 without a choice point, otherwise
// it is an enumerated choice over {0 (hit), 1 (miss)}.
func RandMod(n int) int {
	if S == nil {
		return rand.Int() % n
	}
	if n <= 1 {
		return 0
	}
	return Choose(2, "rand%n")
}

// RandIntn replaces rand.Intn(n): every value is explored.
func RandIntn(n int) int {
	if S == nil {
		return rand.Intn(n)
	}
	return Choose(n, "rand.Intn")
}

// ---- mutexes ----

type Mutex struct {
	real   sync.Mutex
	locked bool
}

func (m *Mutex) Lock() {
	s := S
	if s == nil {
		m.real.Lock()
		return
	}
	cur := s.cur
	if m.locked {
		cur.canRun = func() bool { return !m.locked }
		cur.waitDesc = "mutex"
	}
	s.point(false)
	for m.locked {
		cur.canRun = func() bool { return !m.locked }
		cur.waitDesc = "mutex"
		s.point(true)
	}
	m.locked = true
}

func (m *Mutex) Unlock() {
	s := S
	if s == nil {
		m.real.Unlock()
		return
	}
	if !m.locked {
		panic("verifrt: unlock of unlocked mutex")
	}
	m.locked = false
	if !s.aborted {
		s.point(false)
	}
}

// TryLock mirrors sync.Mutex.TryLock.
func (m *Mutex) TryLock() bool {
	s := S
	if s == nil {
		return m.real.TryLock()
	}
	s.point(false)
	if m.locked {
		return false
	}
	m.locked = true
	return true
}

type RWMutex struct {
	real    sync.RWMutex
	writer  bool
	readers int
}

func (m *RWMutex) Lock() {
	s := S
	if s == nil {
		m.real.Lock()
		return
	}
	free := func() bool { return !m.writer && m.readers == 0 }
	if !free() {
		s.cur.canRun = free
		s.cur.waitDesc = "rwmutex(w)"
	}
	s.point(false)
	for !free() {
		s.cur.canRun = free
		s.cur.waitDesc = "rwmutex(w)"
		s.point(true)
	}
	m.writer = true
}
func (m *RWMutex) Unlock() {
	s := S
	if s == nil {
		m.real.Unlock()
		return
	}
	m.writer = false
	if !s.aborted {
		s.point(false)
	}
}
func (m *RWMutex) RLock() {
	s := S
	if s == nil {
		m.real.RLock()
		return
	}
	free := func() bool { return !m.writer }
	if !free() {
		s.cur.canRun = free
		s.cur.waitDesc = "rwmutex(r)"
	}
	s.point(false)
	for !free() {
		s.cur.canRun = free
		s.cur.waitDesc = "rwmutex(r)"
		s.point(true)
	}
	m.readers++
}
func (m *RWMutex) RUnlock() {
	s := S
	if s == nil {
		m.real.RUnlock()
		return
	}
	m.readers--
	if !s.aborted {
		s.point(false)
	}
}

// ---- pools ----

// Pool stands in for sync.Pool. Outside the scheduler it is the real pool.
// Under the scheduler it is a deterministic LIFO free list (what sync.Pool is
// for goroutines that stay on one P) whose Get and Put are scheduling points;
// every pool touched during an execution is emptied by ResetPools, so that
// each execution starts from the same (empty) pools.
type Pool struct {
	New   func() interface{}
	real  sync.Pool
	items []interface{}
	reg   bool
}

var livePools []*Pool

// ResetPools empties every pool used under the scheduler so far.
func ResetPools() {
	for _, p := range livePools {
		p.items = nil
	}
}

// PoolItems returns the objects now resting in pools used under the scheduler (harness oracles: aliasing).
func PoolItems() [][]interface{} {
	var out [][]interface{}
	for _, p := range livePools {
		out = append(out, append([]interface{}{}, p.items...))
	}
	return out
}

func (p *Pool) Get() interface{} {
	s := S
	if s == nil {
		if v := p.real.Get(); v != nil {
			return v
		}
		if p.New != nil {
			return p.New()
		}
		return nil
	}
	s.point(false)
	if n := len(p.items); n > 0 {
		v := p.items[n-1]
		p.items = p.items[:n-1]
		return v
	}
	if p.New != nil {
		return p.New()
	}
	return nil
}

func (p *Pool) Put(v interface{}) {
	s := S
	if s == nil {
		p.real.Put(v)
		return
	}
	if !p.reg {
		p.reg = true
		livePools = append(livePools, p)
	}
	p.items = append(p.items, v)
	if !s.aborted {
		s.point(false)
	}
}

// ---- file systems ----

// FS wraps a file system so that opening a file is a scheduling point (under the scheduler only).
func FS(inner http.FileSystem) http.FileSystem { return pointFS{inner} }

type pointFS struct{ inner http.FileSystem }

func (f pointFS) Open(name string) (http.File, error) {
	if S != nil {
		S.point(false)
	}
	return f.inner.Open(name)
}
