// C12, overlapping requests (E2): templates keeps its response buffers in a
// per-site pool, httpserver keeps more (response buffers, include buffers).
// What one request does with a pooled buffer (gives it back twice, gives it
// back while its bytes are still to be sent) shows only in requests that come
// later and overlap. After every prologue of a small menu, two requests run as
// threads of the cooperative scheduler on the source-instrumented packages
// (pool Get/Put, every probe operation and every write that reaches the
// connection are scheduling points); every interleaving up to the preemption
// bound is explored, and each client must receive exactly the response it
// receives when its request is served alone.
package main

import (
	"fmt"
	"path/filepath"
	"strings"

	"github.com/tmpim/casket/verifrt"
	"verif/internal/kit"
)

type ocase struct {
	Casketfile string   `json:"casketfile"`
	Prologue   []string `json:"prologue_requests"`
	Requests   []string `json:"overlapping_requests"`
	Bound      int      `json:"preemption_bound"`
	Schedule   []int    `json:"schedule"`
	Failure    string   `json:"failure"`
}

func seen(r *kit.Rec, pv interface{}) string {
	if pv != nil {
		return fmt.Sprintf("panic escaped: %v", pv)
	}
	if r == nil {
		return "no response"
	}
	return fmt.Sprintf("%d CT=%q CL=%q commits=%d body[%d]=%q", r.Status, r.Snap.Get("Content-Type"), r.Snap.Get("Content-Length"), r.HeaderCalls, r.Body.Len(), r.Body.String())
}

func overlapPhase(rep *kit.Report, root string) {
	kit.WriteFile(root, "oa.html", strings.Repeat("A-PAGE {{.Method}} {{.Host}} ", 12))
	kit.WriteFile(root, "ob.html", strings.Repeat("B-PAGE {{.Method}} {{.Host}} ", 12))
	kit.WriteFile(root, "oinc.html", "INC[{{.Include \"plain.txt\"}}] "+strings.Repeat("C-PAGE ", 40))
	kit.WriteFile(root, "plain.bin", strings.Repeat("BINARY-FILE ", 30))
	kit.WriteFile(root, "obad.html", strings.Repeat("D-PAGE ", 40)+"{{.NoSuchMethod}}")
	type oreq struct{ name, method, path, probe string }
	menu := []oreq{
		{"template-file-a", "GET", "/oa.html", ""},
		{"template-file-b", "GET", "/ob.html", ""},
		{"template-from-handler", "GET", "/t.html", "hdr:Content-Type=text/html;status:200;write:300xA;write:HANDLER-{{.Method}}-;write:40xB"},
		{"not-a-template", "GET", "/plain.bin", ""}, // (.txt is among the default template extensions)
		{"handler-not-a-template", "GET", "/x.bin", "hdr:Content-Type=application/octet-stream;status:200;write:300xA;flush;write:300xB"},
		{"template-with-include", "GET", "/oinc.html", ""},
		{"template-that-fails", "GET", "/obad.html", ""},
		{"handler-error-after-template-body", "GET", "/t.html", "hdr:Content-Type=text/html;status:200;write:300xA;ret:0:boom"},
		{"head-template", "HEAD", "/oa.html", ""},
		{"missing", "GET", "/nothing.html", ""},
	}
	raw := func(q oreq, letters string) string {
		var hdr []string
		if q.probe != "" {
			hdr = append(hdr, "X-Probe: "+strings.NewReplacer("xA", "x"+letters[:1], "xB", "x"+letters[1:2]).Replace(q.probe))
		}
		return kit.Get(q.method, q.path, "a.test:8080", hdr...)
	}
	proMenu := [][]int{nil, {0}, {3}, {4}, {6}, {7}, {8}, {9}, {3, 3}, {5}}
	pairs := [][2]int{{0, 1}, {0, 2}, {2, 2}, {0, 3}, {1, 4}, {0, 5}, {5, 5}, {0, 6}, {2, 7}}
	bound := 2
	sites := []string{"templates", "templates\n\terrors", "templates\n\tgzip"}
	if !rep.Thorough() {
		sites = sites[:1]
	} else {
		bound = 3
		for a := range menu {
			for b := a; b < len(menu); b++ {
				dup := false
				for _, p := range pairs {
					dup = dup || p == [2]int{a, b}
				}
				if !dup {
					pairs = append(pairs, [2]int{a, b})
				}
			}
		}
	}
	kit.IOPoint = verifrt.Point
	defer func() { kit.IOPoint = nil }()
	for _, site := range sites {
		cf := fmt.Sprintf("a.test:8080 {\n\troot %s\n\t%s\n\tverif_probe\n}\n", root, site)
		l, err := kit.Load(cf, filepath.Join(root, "..", "Casketfile-c12"))
		if err != nil {
			rep.Broken("load: %v\n%s", err, cf)
		}
		srv := l.Server("")
		for _, pro := range proMenu {
			for _, pair := range pairs {
				if rep.Expired() {
					rep.Capped("deadline reached before every overlap scenario was explored")
					l.Close()
					return
				}
				var proRaw []string
				for _, i := range pro {
					proRaw = append(proRaw, raw(menu[i], "pq"))
				}
				raws := []string{raw(menu[pair[0]], "ab"), raw(menu[pair[1]], "cd")}
				var want [2]string
				for t := range raws {
					r, pv, _ := kit.Serve(srv, raws[t])
					want[t] = seen(r, pv)
				}
				var got [2]string
				body := func() {
					verifrt.ResetPools()
					got = [2]string{"did not finish", "did not finish"}
					for _, p := range proRaw {
						kit.Serve(srv, p)
					}
					for t := range raws {
						t := t
						verifrt.GoNamed(fmt.Sprintf("req%d", t), func() {
							r, pv, _ := kit.Serve(srv, raws[t])
							got[t] = seen(r, pv)
						})
					}
				}
				outcomes := map[string]bool{}
				check := func(res verifrt.Result) string {
					rep.Eval(1)
					rep.AddInt("overlap_transitions", int64(res.Steps))
					outcomes[got[0]+"|"+got[1]] = true
					for t := range raws {
						if got[t] != want[t] {
							return fmt.Sprintf("request %d (%s) overlapping with %s: the client receives %s; served alone it receives %s", t, menu[pair[t]].name, menu[pair[1-t]].name, got[t], want[t])
						}
					}
					return ""
				}
				st := verifrt.Explore(bound, verifrt.Options{MaxSteps: 20000}, body, check, rep.Expired)
				if st.Capped {
					rep.Capped(fmt.Sprintf("deadline reached inside an overlap exploration (preemption bound %d)", bound))
				} else {
					rep.AddInt("overlap_scenarios_completed", 1)
				}
				rep.AddInt("overlap_schedules", st.Executions)
				rep.AddInt("overlap_distinct_outcomes", int64(len(outcomes)))
				if st.MaxDepth > 0 {
					rep.Set("overlap_max_schedule_depth", st.MaxDepth)
				}
				if st.FirstFail != nil {
					rep.Violation("C12/overlap/response-differs-from-the-one-served-alone", st.FirstFail.Failure, ocase{cf, proRaw, raws, bound, st.FirstPrefix, st.FirstFail.Failure})
				}
				rep.Class(fmt.Sprintf("overlap/%s+%s", menu[pair[0]].name, menu[pair[1]].name))
			}
		}
		l.Close()
	}
	rep.Set("overlap_preemption_bound", bound)
}
