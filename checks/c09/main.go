// C09 — directives act in the fixed documented order, not in file order.
package main

import (
	"fmt"
	"net"
	"net/http"
	"net/http/fcgi"
	"os"
	"path/filepath"
	"sort"
	"strings"

	"github.com/tmpim/casket"
	"verif/internal/kit"
)

type c09case struct {
	Canonical string `json:"block_in_canonical_order"`
	Permuted  string `json:"permuted_block"`
	Request   string `json:"request"`
	Want      string `json:"response_of_canonical"`
	Got       string `json:"response_of_permuted"`
}

func sig(rec *kit.Rec, logLine string) string {
	var hs []string
	for k, vv := range rec.Snap {
		if k == "Date" || k == "Last-Modified" || k == "Etag" || k == "X-Request-Id" {
			continue
		}
		for _, v := range vv {
			hs = append(hs, k+": "+v)
		}
	}
	sort.Strings(hs)
	body := rec.Body.String()
	if strings.Contains(strings.Join(rec.Snap.Values("Content-Encoding"), ","), "gzip") {
		if dec, err := kit.Gunzip(rec.Body.Bytes()); err == nil {
			body = string(dec)
		}
	}
	if len(body) > 300 {
		body = body[:300] + fmt.Sprintf("...[%d bytes]", len(body))
	}
	return fmt.Sprintf("%d | %s | body=%q | log=%q", rec.Status, strings.Join(hs, "; "), body, logLine)
}

func readLog(p string, off *int64) string {
	b, err := os.ReadFile(p)
	if err != nil {
		return "<no log file>"
	}
	s := string(b[*off:])
	*off = int64(len(b))
	return strings.TrimSpace(s)
}

func orderTable(rep *kit.Report, phase string) {
	dirs := casket.ValidDirectives("http")
	pos := map[string]int{}
	for i, d := range dirs {
		pos[d] = i
	}
	content := []string{"templates", "proxy", "fastcgi", "websocket", "markdown", "browse", "pprof", "expvar"} // (the last two answer under /debug)
	var pairs [][2]string
	for _, c := range content {
		for _, outer := range []string{"log", "gzip", "header", "errors", "basicauth", "redir", "status", "internal", "rewrite", "ext", "tryfiles", "mime", "limits"} {
			pairs = append(pairs, [2]string{outer, c})
		}
	}
	for _, a := range []string{"rewrite", "ext", "tryfiles"} {
		for _, b := range []string{"basicauth", "redir", "status", "internal"} {
			pairs = append(pairs, [2]string{a, b})
		}
	}
	pairs = append(pairs, [2]string{"root", "log"}, [2]string{"tls", "log"}, [2]string{"log", "gzip"}, [2]string{"gzip", "errors"}, [2]string{"log", "errors"}, [2]string{"basicauth", "internal"}, [2]string{"limits", "rewrite"})
	for _, p := range pairs {
		rep.Eval(1)
		a, okA := pos[p[0]]
		b, okB := pos[p[1]]
		if !okA || !okB {
			rep.Violation("C09/order-table/missing-directive", fmt.Sprintf("%s: directive %q or %q is not in the directive list", phase, p[0], p[1]), nil)
			continue
		}
		if a >= b {
			rep.Violation("C09/order-table/"+phase, fmt.Sprintf("%s: %q (position %d) must take effect before %q (position %d)", phase, p[0], a, p[1], b), map[string]interface{}{"directive_list": dirs})
		}
	}
	rep.Class("order-table/" + phase)
}

func main() {
	rep := kit.NewReport("C09", "exploration",
		"every block of root + <=3 (thorough 4) lines from a 27-line menu of standard directives (two rewrite, two header and two redir lines included, one of them ending in an attached comment) x every permutation of its lines that keeps same-directive lines in relative order x 21 requests; full response (status, header multiset minus Date, decoded body) and access-log line must equal those of the canonically ordered block; plus a table of ~130 documented ordered pairs checked against casket.ValidDirectives(\"http\") before and after a rejected load; distinct_nontrivial = outcome classes")
	kit.Init()
	kit.Log.Off.Store(true)
	base := kit.TempDir("c09")
	defer os.RemoveAll(base)
	root := filepath.Join(base, "root")
	for f, c := range map[string]string{"secret/s.txt": "SECRET", "pub/p.txt": strings.Repeat("public text ", 30), "pub/p.html": "<b>{{.Host}}</b>", "404.html": "CUSTOM404", "page.md": "# title\n", "t.html": "T {{.Method}}", "s.txt": "S-TXT", "int/x.txt": "INTERNAL"} {
		kit.WriteFile(root, f, c)
	}
	sock := filepath.Join(base, "b.sock")
	ln, err := net.Listen("unix", sock)
	if err != nil {
		rep.Broken("listen: %v", err)
	}
	// (no keep-alive: every loaded block has its own transport, whose idle connections would otherwise pile up)
	backend := &http.Server{Handler: http.HandlerFunc(func(w http.ResponseWriter, r *http.Request) {
		if r.URL.Path == "/api/missing" {
			http.NotFound(w, r)
			return
		}
		fmt.Fprintf(w, "backend %s", r.URL.Path)
	})}
	backend.SetKeepAlivesEnabled(false)
	go backend.Serve(ln)
	defer ln.Close()
	fsock := filepath.Join(base, "f.sock")
	fln, err := net.Listen("unix", fsock)
	if err != nil {
		rep.Broken("listen: %v", err)
	}
	go fcgi.Serve(fln, http.HandlerFunc(func(w http.ResponseWriter, r *http.Request) {
		fmt.Fprintf(w, "responder %s", r.URL.Path)
	}))
	defer fln.Close()
	kit.WriteFile(root, "fc/i.php", "<?php source ?>")

	orderTable(rep, "initial")
	// a rejected configuration must not disturb the order for later loads
	if _, err := kit.Load("a.test:8080 {\n\tgzipp\n}\n", filepath.Join(base, "Casketfile")); err == nil {
		rep.Broken("misspelled directive was accepted")
	}
	orderTable(rep, "after-rejected-load")

	menu := []string{
		"rewrite /rw /secret/s.txt",
		"rewrite /r2 /pub/p.txt",
		"redir /old /new 302",
		"redir /old2 /new2#anchor", // (a comment attached to the last word: the line ends where it is written to end)
		"basicauth /secret u p",
		"internal /int",
		"status 418 /teapot",
		"header / X-A 1",
		"header /pub X-B 2",
		"gzip",
		"log / LOGFILE \"{status} {method} {uri} {rewrite_uri}\"",
		"errors {\n\t\t404 " + filepath.Join(root, "404.html") + "\n\t}",
		"mime .txt text/x-verif",
		"ext .txt .html",
		"index p.txt",
		"limits 1KB",
		"templates",
		"markdown /",
		"browse /pub",
		"proxy /api unix:" + sock,
		"tryfiles {path} {path}.txt /pub/p.txt",
		"request_id X-Req",
		"expvar /vars",
		"push /pub /s.txt",
		"fastcgi /fc unix:" + fsock + " {\n\t\text .php\n\t\tsplit .php\n\t\tindex i.php\n\t}",
		"header /fc X-C 3",
		// a quoted argument continued over a line break with a backslash: whatever is written on the next line is its own directive
		"redir \"/never\\\nthere\" /new 302",
	}
	canonPos := map[string]int{}
	for i, d := range casket.ValidDirectives("http") {
		canonPos[d] = i
	}
	maxSub := 3
	if rep.Thorough() {
		maxSub = 4
	}
	var subsets [][]int
	kit.Subsets(len(menu), 1, maxSub, func(idx []int) { subsets = append(subsets, idx) })
	battery := []string{
		kit.Get("GET", "/rw", "a.test:8080"),
		kit.Get("GET", "/rw", "a.test:8080", "Authorization: Basic dTpw"),
		kit.Get("GET", "/r2", "a.test:8080", "Accept-Encoding: gzip"),
		kit.Get("GET", "/old", "a.test:8080"),
		kit.Get("GET", "/old2", "a.test:8080"),
		kit.Get("GET", "/secret/s.txt", "a.test:8080"),
		kit.Get("GET", "/int/x.txt", "a.test:8080"),
		kit.Get("GET", "/teapot", "a.test:8080"),
		kit.Get("GET", "/pub/p.txt", "a.test:8080", "Accept-Encoding: gzip"),
		kit.Get("GET", "/pub/", "a.test:8080"),
		kit.Get("GET", "/pub/p", "a.test:8080"),
		kit.Get("GET", "/missing", "a.test:8080", "Accept-Encoding: gzip"),
		kit.Get("GET", "/page.md", "a.test:8080"),
		kit.Get("GET", "/t.html", "a.test:8080"),
		kit.Get("GET", "/api/x", "a.test:8080"),
		kit.Get("GET", "/api/missing", "a.test:8080"),
		kit.Get("GET", "/s", "a.test:8080"),
		kit.Get("GET", "/fc/i.php", "a.test:8080"),
		kit.Get("GET", "/fc/", "a.test:8080", "Accept-Encoding: gzip"),
		kit.Get("GET", "/pub/p.txt", "a.test:8080", "X-Req: 11111111-2222-3333-4444-555555555555"),
		kit.Get("GET", "/nothing-here", "a.test:8080"),
	}
	kit.Parallel(len(subsets), func(si int) bool {
		if rep.Expired() {
			rep.Capped("deadline")
			return false
		}
		lines := []string{"root " + root}
		for _, i := range subsets[si] {
			lines = append(lines, menu[i])
		}
		n := len(lines)
		// canonical order: by position of the directive in the list, stable
		canon := make([]int, n)
		for i := range canon {
			canon[i] = i
		}
		sort.SliceStable(canon, func(a, b int) bool {
			return canonPos[strings.Fields(lines[canon[a]])[0]] < canonPos[strings.Fields(lines[canon[b]])[0]]
		})
		render := func(order []int, logFile string) string {
			var b strings.Builder
			b.WriteString("a.test:8080 {\n")
			for _, i := range order {
				b.WriteString("\t" + strings.Replace(lines[i], "LOGFILE", logFile, 1) + "\n")
			}
			b.WriteString("}\n")
			return b.String()
		}
		run := func(cf, logFile string) ([]string, error) {
			l, err := kit.Load(cf, filepath.Join(base, "Casketfile"))
			if err != nil {
				return nil, err
			}
			defer l.Close()
			var off int64
			var out []string
			for _, raw := range battery {
				rec, pv, _ := kit.Serve(l.Server(""), raw)
				rep.Eval(1)
				if pv != nil {
					out = append(out, fmt.Sprintf("panic: %v", pv))
					continue
				}
				out = append(out, sig(rec, readLog(logFile, &off)))
			}
			return out, nil
		}
		lf0 := filepath.Join(base, fmt.Sprintf("log-%d-canon", si))
		cf0 := render(canon, lf0)
		want, err := run(cf0, lf0)
		os.Remove(lf0)
		if err != nil {
			// a block that loads in one order of its lines and not in the canonical one is order-dependent too
			loads := ""
			kit.Perms(n, func(p []int) {
				if loads != "" {
					return
				}
				lf := filepath.Join(base, fmt.Sprintf("log-%d-probe", si))
				if l, e := kit.Load(render(p, lf), filepath.Join(base, "Casketfile")); e == nil {
					l.Close()
					loads = render(p, lf)
				}
				os.Remove(lf)
			})
			if loads == "" {
				// every line of the menu is a valid directive line (they all load on the unchanged tree)
				rep.Violation("C09/valid-block-rejected-in-every-order", "a block of valid directive lines does not load in any order: "+err.Error(), c09case{cf0, "", "", "", ""})
				return true
			}
			rep.Violation("C09/permuted-block-rejected", "a block loads in one order of its lines and not in another: "+err.Error(), c09case{loads, cf0, "", "", ""})
			return true
		}
		local := map[string]int64{}
		pi := 0
		kit.Perms(n, func(p []int) {
			// keep lines of the same directive in their relative (menu) order
			last := map[string]int{}
			for _, i := range p {
				d := strings.Fields(lines[i])[0]
				if prev, ok := last[d]; ok && prev > i {
					return
				}
				last[d] = i
			}
			same := true
			for k := range p {
				if p[k] != canon[k] {
					same = false
				}
			}
			if same {
				return
			}
			pi++
			lf := filepath.Join(base, fmt.Sprintf("log-%d-%d", si, pi))
			cf := render(p, lf)
			got, err := run(cf, lf)
			os.Remove(lf)
			if err != nil {
				rep.Violation("C09/permuted-block-rejected", "a reordering of an accepted block does not load: "+err.Error(), c09case{cf0, cf, "", "", ""})
				return
			}
			for k := range battery {
				if got[k] != want[k] {
					// name the directives involved for the signature: the first pair out of canonical order
					involved := ""
					for x := 0; x < len(p) && involved == ""; x++ {
						for y := x + 1; y < len(p); y++ {
							dx, dy := strings.Fields(lines[p[x]])[0], strings.Fields(lines[p[y]])[0]
							if canonPos[dx] > canonPos[dy] {
								involved = dy + "-before-" + dx
								break
							}
						}
					}
					rep.Violation("C09/order-dependent/"+involved, fmt.Sprintf("request %d answered differently after reordering", k), c09case{cf0, cf, battery[k], want[k], got[k]})
					break
				}
			}
			local[fmt.Sprintf("permutation-checked/lines=%d", n)]++
		})
		rep.ClassN(local)
		if si == 300 {
			rep.Sample(map[string]interface{}{"canonical_block": cf0, "permutations": pi, "battery": len(battery)})
		}
		return true
	})
	orderTable(rep, "final")
	rep.Finish()
}
