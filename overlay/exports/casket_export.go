package casket

import "sync"

// VerifLoad performs the first half of startWithListenerFds: it parses and
// executes all directives of cdy (with parsing callbacks) and builds the
// servers, but opens no listener and runs no startup callback.
func VerifLoad(cdy Input) (*Instance, []Server, error) {
	inst := &Instance{serverType: cdy.ServerType(), wg: new(sync.WaitGroup), Storage: make(map[interface{}]interface{})}
	err := ValidateAndExecuteDirectives(cdy, inst, false)
	if err != nil {
		return inst, nil, err
	}
	slist, err := inst.context.MakeServers()
	return inst, slist, err
}

// VerifInstanceCount reports the size of the process-global instance list.
func VerifInstanceCount() int {
	instancesMu.Lock()
	defer instancesMu.Unlock()
	return len(instances)
}

// VerifContext returns the server-type context of i.
func (i *Instance) VerifContext() Context { return i.context }

// VerifPurgeEventHooks empties the process-global event hook registry (what a
// fresh process starts with), so that hooks registered by one configuration
// under test do not run during the next one.
func VerifPurgeEventHooks() { purgeEventHooks() }
