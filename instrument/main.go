// Command instrument rewrites the concurrency and environment primitives of
// casket packages into calls on the verifrt runtime (E2 engine). It reads the
// non-test Go files of each package directory given (relative to -repo),
// writes rewritten copies under -out and prints a go-build overlay mapping
// (JSON object: original path -> rewritten path, plus the virtual package
// <repo>/verifrt -> -rt) on stdout.
//
// Rewrites (everything else is left alone and keeps its real semantics):
//   go f(a, b)                         -> { t0, t1 := a, b; verifrt.Go(func(){ f(t0, t1) }) }
//   atomic.AddInt64/AddInt32/... (fn)  -> verifrt.AtomicAddInt64/...
//   time.Now / time.Since / time.Sleep -> verifrt.Now / Since / Sleep
//   rand.Int()                         -> verifrt.RandInt()
//   sync.Mutex / sync.RWMutex (types)  -> verifrt.Mutex / verifrt.RWMutex
// With :pool after a package directory additionally
//   http.Dir(root)                     -> verifrt.FS(http.Dir(root)) (Open is a scheduling point)
//   sync.Pool (type)                   -> verifrt.Pool (deterministic LIFO free list; Get/Put are scheduling points)
// With -chan (root package) additionally channel operations, select,
// sync.WaitGroup, sync.Once, signal.Notify and os.Exit (see chan.go).
package main

import (
	"bytes"
	"encoding/json"
	"flag"
	"fmt"
	"go/ast"
	"go/format"
	"go/parser"
	"go/token"
	"os"
	"path/filepath"
	"strconv"
	"strings"
)

const rtImport = "github.com/tmpim/casket/verifrt"

var atomicFns = map[string]bool{"AddInt64": true, "AddInt32": true, "AddUint32": true, "LoadInt64": true, "LoadInt32": true,
	"StoreInt32": true, "StoreInt64": true, "CompareAndSwapInt32": true}
var timeFns = map[string]bool{"Now": true, "Since": true, "Sleep": true}

type fileCtx struct {
	fset    *token.FileSet
	f       *ast.File
	imports map[string]string // local name -> path
	used    bool              // verifrt referenced
	tmpN    int
	chanOps bool
	pools   bool
	stats   map[string]int
}

func main() {
	repo := flag.String("repo", "/repo", "repository root")
	out := flag.String("out", "", "output directory")
	rt := flag.String("rt", "", "directory of the verifrt sources")
	flag.Parse()
	if *out == "" || *rt == "" {
		fmt.Fprintln(os.Stderr, "usage: instrument -repo R -out O -rt RT pkgdir[:chan]...")
		os.Exit(2)
	}
	overlay := map[string]string{}
	// virtual runtime package
	rtFiles, _ := filepath.Glob(filepath.Join(*rt, "*.go"))
	for _, f := range rtFiles {
		if strings.HasSuffix(f, "_test.go") {
			continue
		}
		overlay[filepath.Join(*repo, "verifrt", filepath.Base(f))] = f
	}
	total := map[string]int{}
	for _, arg := range flag.Args() {
		pools := false
		if strings.HasSuffix(arg, ":pool") {
			pools = true
			arg = strings.TrimSuffix(arg, ":pool")
		}
		chanOps := false
		if strings.HasSuffix(arg, ":chan") {
			chanOps = true
			arg = strings.TrimSuffix(arg, ":chan")
		}
		dir := filepath.Join(*repo, arg)
		files, err := filepath.Glob(filepath.Join(dir, "*.go"))
		if err != nil || len(files) == 0 {
			fmt.Fprintf(os.Stderr, "instrument: no go files in %s\n", dir)
			os.Exit(1)
		}
		for _, path := range files {
			if strings.HasSuffix(path, "_test.go") {
				continue
			}
			src, err := os.ReadFile(path)
			if err != nil {
				fatal(err)
			}
			fset := token.NewFileSet()
			f, err := parser.ParseFile(fset, path, src, parser.ParseComments)
			if err != nil {
				fatal(err)
			}
			fc := &fileCtx{fset: fset, f: f, imports: map[string]string{}, chanOps: chanOps, pools: pools, stats: map[string]int{}}
			for _, im := range f.Imports {
				p, _ := strconv.Unquote(im.Path.Value)
				name := filepath.Base(p)
				if im.Name != nil {
					name = im.Name.Name
				}
				fc.imports[name] = p
			}
			fc.rewriteFile()
			for k, v := range fc.stats {
				total[k] += v
			}
			if !fc.used {
				continue // untouched file: keep the original
			}
			fc.fixImports()
			var buf bytes.Buffer
			if err := format.Node(&buf, fset, f); err != nil {
				fatal(fmt.Errorf("%s: %v", path, err))
			}
			rel, _ := filepath.Rel(*repo, path)
			dst := filepath.Join(*out, strings.ReplaceAll(rel, string(filepath.Separator), "__"))
			if err := os.WriteFile(dst, buf.Bytes(), 0o644); err != nil {
				fatal(err)
			}
			overlay[path] = dst
		}
	}
	b, _ := json.MarshalIndent(overlay, "", " ")
	os.Stdout.Write(b)
	st, _ := json.Marshal(total)
	fmt.Fprintf(os.Stderr, "instrument: rewrites %s\n", st)
}

func fatal(err error) {
	fmt.Fprintln(os.Stderr, "instrument:", err)
	os.Exit(1)
}

func (fc *fileCtx) isPkg(x ast.Expr, path string) bool {
	id, ok := x.(*ast.Ident)
	if !ok || id.Obj != nil { // Obj != nil: a local object shadows the package name
		return false
	}
	return fc.imports[id.Name] == path
}

func (fc *fileCtx) rt(name string) ast.Expr {
	fc.used = true
	return &ast.SelectorExpr{X: ast.NewIdent("verifrt"), Sel: ast.NewIdent(name)}
}

func (fc *fileCtx) tmp() string {
	fc.tmpN++
	return fmt.Sprintf("verifTmp%d", fc.tmpN)
}

// rewriteFile walks all declarations.
func (fc *fileCtx) rewriteFile() {
	for _, d := range fc.f.Decls {
		switch d := d.(type) {
		case *ast.FuncDecl:
			fc.rewriteTypes(d.Type)
			if d.Recv != nil {
				fc.rewriteFieldList(d.Recv)
			}
			if d.Body != nil {
				fc.rewriteBlock(d.Body)
			}
		case *ast.GenDecl:
			for _, sp := range d.Specs {
				switch sp := sp.(type) {
				case *ast.TypeSpec:
					sp.Type = fc.rewriteTypeExpr(sp.Type)
				case *ast.ValueSpec:
					if sp.Type != nil {
						sp.Type = fc.rewriteTypeExpr(sp.Type)
					}
					for i := range sp.Values {
						sp.Values[i] = fc.rewriteExpr(sp.Values[i])
					}
				}
			}
		}
	}
}

func (fc *fileCtx) rewriteFieldList(fl *ast.FieldList) {
	if fl == nil {
		return
	}
	for _, f := range fl.List {
		f.Type = fc.rewriteTypeExpr(f.Type)
	}
}

func (fc *fileCtx) rewriteTypes(ft *ast.FuncType) {
	fc.rewriteFieldList(ft.Params)
	fc.rewriteFieldList(ft.Results)
}

// rewriteTypeExpr maps sync.Mutex etc. inside a type expression.
func (fc *fileCtx) rewriteTypeExpr(e ast.Expr) ast.Expr {
	switch t := e.(type) {
	case *ast.SelectorExpr:
		if fc.isPkg(t.X, "sync") {
			switch t.Sel.Name {
			case "Mutex", "RWMutex":
				fc.stats["sync."+t.Sel.Name]++
				return fc.rt(t.Sel.Name)
			case "Pool":
				if fc.pools {
					fc.stats["sync."+t.Sel.Name]++
					return fc.rt(t.Sel.Name)
				}
			case "WaitGroup", "Once":
				if fc.chanOps {
					fc.stats["sync."+t.Sel.Name]++
					return fc.rt(t.Sel.Name)
				}
			}
		}
		return t
	case *ast.StarExpr:
		t.X = fc.rewriteTypeExpr(t.X)
	case *ast.ArrayType:
		t.Elt = fc.rewriteTypeExpr(t.Elt)
	case *ast.MapType:
		t.Key = fc.rewriteTypeExpr(t.Key)
		t.Value = fc.rewriteTypeExpr(t.Value)
	case *ast.ChanType:
		t.Value = fc.rewriteTypeExpr(t.Value)
	case *ast.StructType:
		fc.rewriteFieldList(t.Fields)
	case *ast.FuncType:
		fc.rewriteTypes(t)
	case *ast.InterfaceType:
	case *ast.Ellipsis:
		t.Elt = fc.rewriteTypeExpr(t.Elt)
	case *ast.ParenExpr:
		t.X = fc.rewriteTypeExpr(t.X)
	}
	return e
}

func (fc *fileCtx) rewriteBlock(b *ast.BlockStmt) {
	if b == nil {
		return
	}
	b.List = fc.rewriteStmts(b.List)
}

func (fc *fileCtx) rewriteStmts(list []ast.Stmt) []ast.Stmt {
	out := make([]ast.Stmt, 0, len(list))
	for _, s := range list {
		out = append(out, fc.rewriteStmt(s))
	}
	return out
}

func (fc *fileCtx) rewriteStmt(s ast.Stmt) ast.Stmt {
	switch st := s.(type) {
	case *ast.GoStmt:
		return fc.rewriteGo(st)
	case *ast.BlockStmt:
		fc.rewriteBlock(st)
	case *ast.ExprStmt:
		st.X = fc.rewriteExpr(st.X)
	case *ast.AssignStmt:
		for i := range st.Rhs {
			st.Rhs[i] = fc.rewriteExpr(st.Rhs[i])
		}
		for i := range st.Lhs {
			st.Lhs[i] = fc.rewriteExpr(st.Lhs[i])
		}
		if fc.chanOps {
			return fc.chanAssign(st)
		}
	case *ast.DeclStmt:
		if gd, ok := st.Decl.(*ast.GenDecl); ok {
			for _, sp := range gd.Specs {
				if vs, ok := sp.(*ast.ValueSpec); ok {
					if vs.Type != nil {
						vs.Type = fc.rewriteTypeExpr(vs.Type)
					}
					for i := range vs.Values {
						vs.Values[i] = fc.rewriteExpr(vs.Values[i])
					}
				}
				if ts, ok := sp.(*ast.TypeSpec); ok {
					ts.Type = fc.rewriteTypeExpr(ts.Type)
				}
			}
		}
	case *ast.IfStmt:
		if st.Init != nil {
			st.Init = fc.rewriteStmt(st.Init)
		}
		st.Cond = fc.rewriteExpr(st.Cond)
		fc.rewriteBlock(st.Body)
		if st.Else != nil {
			st.Else = fc.rewriteStmt(st.Else)
		}
	case *ast.ForStmt:
		if st.Init != nil {
			st.Init = fc.rewriteStmt(st.Init)
		}
		if st.Cond != nil {
			st.Cond = fc.rewriteExpr(st.Cond)
		}
		if st.Post != nil {
			st.Post = fc.rewriteStmt(st.Post)
		}
		fc.rewriteBlock(st.Body)
	case *ast.RangeStmt:
		st.X = fc.rewriteExpr(st.X)
		fc.rewriteBlock(st.Body)
	case *ast.SwitchStmt:
		if st.Init != nil {
			st.Init = fc.rewriteStmt(st.Init)
		}
		if st.Tag != nil {
			st.Tag = fc.rewriteExpr(st.Tag)
		}
		fc.rewriteBlock(st.Body)
	case *ast.TypeSwitchStmt:
		if st.Init != nil {
			st.Init = fc.rewriteStmt(st.Init)
		}
		st.Assign = fc.rewriteStmt(st.Assign)
		fc.rewriteBlock(st.Body)
	case *ast.CaseClause:
		for i := range st.List {
			st.List[i] = fc.rewriteExpr(st.List[i])
		}
		st.Body = fc.rewriteStmts(st.Body)
	case *ast.SelectStmt:
		if fc.chanOps {
			return fc.rewriteSelect(st)
		}
		fc.rewriteBlock(st.Body)
	case *ast.CommClause:
		if st.Comm != nil {
			st.Comm = fc.rewriteStmt(st.Comm)
		}
		st.Body = fc.rewriteStmts(st.Body)
	case *ast.SendStmt:
		st.Chan = fc.rewriteExpr(st.Chan)
		st.Value = fc.rewriteExpr(st.Value)
		if fc.chanOps {
			fc.stats["send"]++
			return &ast.ExprStmt{X: &ast.CallExpr{Fun: fc.rt("Send"), Args: []ast.Expr{st.Chan, st.Value}}}
		}
	case *ast.ReturnStmt:
		for i := range st.Results {
			st.Results[i] = fc.rewriteExpr(st.Results[i])
		}
	case *ast.DeferStmt:
		st.Call = fc.rewriteExpr(st.Call).(*ast.CallExpr)
	case *ast.LabeledStmt:
		st.Stmt = fc.rewriteStmt(st.Stmt)
	case *ast.IncDecStmt:
		st.X = fc.rewriteExpr(st.X)
	}
	return s
}

// rewriteGo turns a go statement into verifrt.Go with arguments evaluated
// at the go statement.
func (fc *fileCtx) rewriteGo(g *ast.GoStmt) ast.Stmt {
	fc.stats["go"]++
	call := fc.rewriteExpr(g.Call).(*ast.CallExpr)
	var pre []ast.Stmt
	if len(call.Args) > 0 {
		var lhs []ast.Expr
		for i := range call.Args {
			name := fc.tmp()
			lhs = append(lhs, ast.NewIdent(name))
			_ = i
		}
		pre = append(pre, &ast.AssignStmt{Lhs: lhs, Tok: token.DEFINE, Rhs: call.Args})
		newArgs := make([]ast.Expr, len(lhs))
		for i := range lhs {
			newArgs[i] = ast.NewIdent(lhs[i].(*ast.Ident).Name)
		}
		call = &ast.CallExpr{Fun: call.Fun, Args: newArgs, Ellipsis: call.Ellipsis}
		if call.Ellipsis != token.NoPos {
			call.Ellipsis = 1
		}
	}
	lit := &ast.FuncLit{Type: &ast.FuncType{Params: &ast.FieldList{}}, Body: &ast.BlockStmt{List: []ast.Stmt{&ast.ExprStmt{X: call}}}}
	goCall := &ast.ExprStmt{X: &ast.CallExpr{Fun: fc.rt("Go"), Args: []ast.Expr{lit}}}
	if len(pre) == 0 {
		return goCall
	}
	return &ast.BlockStmt{List: append(pre, goCall)}
}

func (fc *fileCtx) rewriteExprs(l []ast.Expr) {
	for i := range l {
		l[i] = fc.rewriteExpr(l[i])
	}
}

func (fc *fileCtx) rewriteExpr(e ast.Expr) ast.Expr {
	switch x := e.(type) {
	case nil:
		return nil
	case *ast.CallExpr:
		fc.rewriteExprs(x.Args)
		if sel, ok := x.Fun.(*ast.SelectorExpr); ok {
			switch {
			case fc.isPkg(sel.X, "sync/atomic") && atomicFns[sel.Sel.Name]:
				fc.stats["atomic."+sel.Sel.Name]++
				x.Fun = fc.rt("Atomic" + sel.Sel.Name)
				return x
			case fc.isPkg(sel.X, "time") && timeFns[sel.Sel.Name]:
				fc.stats["time."+sel.Sel.Name]++
				x.Fun = fc.rt(sel.Sel.Name)
				return x
			case fc.isPkg(sel.X, "math/rand") && sel.Sel.Name == "Int":
				fc.stats["rand.Int"]++
				x.Fun = fc.rt("RandInt")
				return x
			case fc.pools && fc.isPkg(sel.X, "net/http") && sel.Sel.Name == "Dir" && len(x.Args) == 1:
				// http.Dir(root) -> verifrt.FS(http.Dir(root)): opening a file is a scheduling point
				fc.stats["http.Dir"]++
				return &ast.CallExpr{Fun: fc.rt("FS"), Args: []ast.Expr{x}}
			case fc.isPkg(sel.X, "math/rand") && sel.Sel.Name == "Intn":
				fc.stats["rand.Intn"]++
				x.Fun = fc.rt("RandIntn")
				return x
			}
			if fc.chanOps {
				if r := fc.chanCall(x, sel); r != nil {
					return r
				}
			}
		}
		if id, ok := x.Fun.(*ast.Ident); ok && fc.chanOps && id.Name == "close" && id.Obj == nil && len(x.Args) == 1 {
			fc.stats["close"]++
			x.Fun = fc.rt("Close")
			return x
		}
		// conversion or make/new with a type argument
		if id, ok := x.Fun.(*ast.Ident); ok && (id.Name == "make" || id.Name == "new") && len(x.Args) > 0 {
			x.Args[0] = fc.rewriteTypeExpr(x.Args[0])
		}
		x.Fun = fc.rewriteExpr(x.Fun)
	case *ast.FuncLit:
		fc.rewriteTypes(x.Type)
		fc.rewriteBlock(x.Body)
	case *ast.CompositeLit:
		if x.Type != nil {
			x.Type = fc.rewriteTypeExpr(x.Type)
		}
		fc.rewriteExprs(x.Elts)
	case *ast.KeyValueExpr:
		x.Value = fc.rewriteExpr(x.Value)
	case *ast.UnaryExpr:
		x.X = fc.rewriteExpr(x.X)
		if x.Op == token.ARROW && fc.chanOps {
			fc.stats["recv"]++
			return &ast.CallExpr{Fun: fc.rt("Recv"), Args: []ast.Expr{x.X}}
		}
	case *ast.BinaryExpr:
		// rand.Int() % n  ->  verifrt.RandMod(n): no choice point when n == 1
		if x.Op == token.REM {
			inner := x.X
			if pe, ok := inner.(*ast.ParenExpr); ok {
				inner = pe.X
			}
			if ce, ok := inner.(*ast.CallExpr); ok && len(ce.Args) == 0 {
				if sel, ok := ce.Fun.(*ast.SelectorExpr); ok && fc.isPkg(sel.X, "math/rand") && sel.Sel.Name == "Int" {
					fc.stats["rand.Int%n"]++
					return &ast.CallExpr{Fun: fc.rt("RandMod"), Args: []ast.Expr{fc.rewriteExpr(x.Y)}}
				}
			}
		}
		x.X = fc.rewriteExpr(x.X)
		x.Y = fc.rewriteExpr(x.Y)
	case *ast.ParenExpr:
		x.X = fc.rewriteExpr(x.X)
	case *ast.SelectorExpr:
		x.X = fc.rewriteExpr(x.X)
	case *ast.IndexExpr:
		x.X = fc.rewriteExpr(x.X)
		x.Index = fc.rewriteExpr(x.Index)
	case *ast.SliceExpr:
		x.X = fc.rewriteExpr(x.X)
	case *ast.StarExpr:
		x.X = fc.rewriteExpr(x.X)
	case *ast.TypeAssertExpr:
		x.X = fc.rewriteExpr(x.X)
	}
	return e
}

// fixImports adds the verifrt import and drops imports that became unused.
func (fc *fileCtx) fixImports() {
	usedNames := map[string]bool{}
	ast.Inspect(fc.f, func(n ast.Node) bool {
		if sel, ok := n.(*ast.SelectorExpr); ok {
			if id, ok := sel.X.(*ast.Ident); ok && id.Obj == nil {
				usedNames[id.Name] = true
			}
		}
		return true
	})
	for _, d := range fc.f.Decls {
		gd, ok := d.(*ast.GenDecl)
		if !ok || gd.Tok != token.IMPORT {
			continue
		}
		var keep []ast.Spec
		for _, sp := range gd.Specs {
			im := sp.(*ast.ImportSpec)
			p, _ := strconv.Unquote(im.Path.Value)
			name := filepath.Base(p)
			if im.Name != nil {
				name = im.Name.Name
			}
			if name == "_" || name == "." || usedNames[name] {
				keep = append(keep, sp)
				continue
			}
			switch p {
			case "sync", "sync/atomic", "time", "math/rand", "os", "os/signal":
				// dropped: no remaining reference
			default:
				keep = append(keep, sp)
			}
		}
		gd.Specs = keep
	}
	// add import as a separate declaration right after the package clause
	imp := &ast.GenDecl{Tok: token.IMPORT, Specs: []ast.Spec{&ast.ImportSpec{Name: ast.NewIdent("verifrt"), Path: &ast.BasicLit{Kind: token.STRING, Value: strconv.Quote(rtImport)}}}}
	var decls []ast.Decl
	decls = append(decls, imp)
	for _, d := range fc.f.Decls {
		if gd, ok := d.(*ast.GenDecl); ok && gd.Tok == token.IMPORT && len(gd.Specs) == 0 {
			continue
		}
		decls = append(decls, d)
	}
	fc.f.Decls = decls
	fc.f.Imports = nil
}
