package proxy

import "net/http"

// VerifHealthCheck runs one active health-check round of a static upstream (what the
// health-check worker does on every tick) with the probes sent through rt.
func VerifHealthCheck(u Upstream, path string, rt http.RoundTripper) {
	su := u.(*staticUpstream)
	su.HealthCheck.Path = path
	su.HealthCheck.Client = http.Client{Transport: rt}
	su.healthCheck()
}
