// C16 — lifecycle callbacks fire exactly once, in order, across start/reload/stop.
//
// Every history over {start, reload via API and via real SIGUSR1 (ok or
// failing at each stage), stop, SIGINT, SIGTERM, SIGQUIT, a second signal
// injected from inside a shutdown callback} up to a depth runs in a child
// process of its own on a fake server type registered through the public
// API; callbacks and fake servers append to an ordered trace that is compared
// with an executable reference model of the lifecycle.
package main

import (
	"encoding/json"
	"errors"
	"flag"
	"fmt"
	"net"
	"os"
	"os/exec"
	"strings"
	"sync"
	"syscall"
	"time"

	"github.com/tmpim/casket"
	"github.com/tmpim/casket/casketfile"
	"verif/internal/kit"
)

// ---------- history ----------

type event struct {
	Op           string `json:"op"`                      // start | reload | usr1 | stop | INT | TERM | QUIT
	Fail         string `json:"fail,omitempty"`          // "", parse, setup, first-startup, startup, listen
	RestartFails bool   `json:"restart_fails,omitempty"` // the instance created by this event fails its restart callback later
	Plain        bool   `json:"plain,omitempty"`         // the instance has a non-graceful second server
	StopErr      bool   `json:"stop_err,omitempty"`      // the instance's first server reports an error when it is stopped (it stops all the same)
}

type history struct {
	Events []event `json:"events"`
	// inject: when callback kind At of any instance runs during shutdown, send Sig to the process
	InjectAt  string `json:"inject_at,omitempty"`
	InjectSig string `json:"inject_sig,omitempty"`
	// overlap: the history ends with a successful reload; while the new instance's startup callback runs, signal Overlap
	// (INT or TERM) arrives; the reload goes on only after the signal's handler has run the old instance's shutdown callbacks
	// (gate 1), and a handler that stops the servers (SIGTERM's does) goes on only after the reload has returned (gate 2).
	// Both gates have a time limit.
	Overlap string `json:"overlap,omitempty"`
}

var flagHistory = flag.String("history", "", "child mode")

// ---------- child: fake server type ----------

var (
	outMu    sync.Mutex
	injAt    string
	injSig   string
	injected bool
	armed    bool // the injection only fires during the shutdown run of the history's final signal
	// overlap scenario
	ovSig        string
	ovNew, ovOld string // instance numbers (as text) of the reloading and the old instance
	ovGate1      = make(chan struct{})
	ovGate2      = make(chan struct{})
	ovOnce1      sync.Once
	ovSignalled  bool
)

func trace(format string, a ...interface{}) {
	outMu.Lock()
	os.Stdout.WriteString("EV " + fmt.Sprintf(format, a...) + "\n")
	outMu.Unlock()
}

type lifeCtx struct {
	inst    *casket.Instance
	k       int
	servers []casket.Server
}

func (c *lifeCtx) InspectServerBlocks(f string, sb []casketfile.ServerBlock) ([]casketfile.ServerBlock, error) {
	return sb, nil
}
func (c *lifeCtx) MakeServers() ([]casket.Server, error) { return c.servers, nil }

type fakeLn struct{ closed chan struct{} }

func (l *fakeLn) Accept() (net.Conn, error) { <-l.closed; return nil, errors.New("closed") }
func (l *fakeLn) Close() error {
	select {
	case <-l.closed:
	default:
		close(l.closed)
	}
	return nil
}
func (l *fakeLn) Addr() net.Addr { return &net.TCPAddr{IP: net.IPv4(127, 0, 0, 1), Port: 1} }

type plainSrv struct {
	k, n       int
	listenFail bool
	stopErr    bool
}

func (s *plainSrv) Listen() (net.Listener, error) {
	trace("listen(%d,%d)", s.k, s.n)
	if s.listenFail {
		return nil, errors.New("listen failure injected")
	}
	return &fakeLn{closed: make(chan struct{})}, nil
}
func (s *plainSrv) Serve(net.Listener) error {
	trace("~serve(%d,%d)", s.k, s.n)
	select {} // cannot be stopped
}
func (s *plainSrv) ListenPacket() (net.PacketConn, error) { return nil, nil }
func (s *plainSrv) ServePacket(net.PacketConn) error      { return nil }

type gracefulSrv struct {
	plainSrv
	stop     chan struct{}
	once     sync.Once
	gateOnce sync.Once
}

func (s *gracefulSrv) Serve(net.Listener) error {
	trace("~serve(%d,%d)", s.k, s.n)
	<-s.stop
	trace("~serve-exit(%d,%d)", s.k, s.n)
	return nil
}
func (s *gracefulSrv) Stop() error {
	trace("stop(%d,%d)", s.k, s.n)
	s.once.Do(func() { close(s.stop) })
	if injected {
		// (second-signal scenario) a server stop takes a moment, as a graceful one does: a second handler that got past the
		// once-only guard has the time to show what it does
		time.Sleep(40 * time.Millisecond)
	}
	first := false
	s.gateOnce.Do(func() { first = true })
	if first && ovSignalled && fmt.Sprint(s.k) == ovOld && s.n == 1 {
		// (overlap scenario, gate 2) the signal's handler has run the callbacks and is stopping the old instance's servers, as a
		// graceful stop that waits for its connections would take a while: it goes on, and ends the process, only when
		// the reload has returned
		select {
		case <-ovGate2:
		case <-time.After(1500 * time.Millisecond):
			trace("#gate 2 timed out (the reload did not return)")
		}
	}
	if s.stopErr {
		return errors.New("stop: a connection outlived the grace period (injected)")
	}
	return nil
}
func (s *gracefulSrv) Address() string                           { return fmt.Sprintf("fake-%d", s.n) }
func (s *gracefulSrv) WrapListener(ln net.Listener) net.Listener { return ln }

func sigOf(name string) syscall.Signal {
	switch name {
	case "INT":
		return syscall.SIGINT
	case "TERM":
		return syscall.SIGTERM
	case "QUIT":
		return syscall.SIGQUIT
	}
	return syscall.SIGUSR1
}

func registerLife() {
	casket.RegisterServerType("life", casket.ServerType{
		Directives: func() []string { return []string{"cb", "srv"} },
		NewContext: func(inst *casket.Instance) casket.Context { return &lifeCtx{inst: inst} },
	})
	// cb <name> <k> [fail=<kind>]...
	casket.RegisterPlugin("cb", casket.Plugin{ServerType: "life", Action: func(c *casket.Controller) error {
		for c.Next() {
			args := c.RemainingArgs()
			if len(args) < 2 {
				return c.ArgErr()
			}
			name, k := args[0], args[1]
			fails := map[string]bool{}
			for _, a := range args[2:] {
				if !strings.HasPrefix(a, "fail=") {
					return c.Errf("bad cb option %s", a)
				}
				fails[strings.TrimPrefix(a, "fail=")] = true
			}
			mk := func(kind string) func() error {
				return func() error {
					trace("%s(%s).%s", kind, k, name)
					if armed && kind == injAt && name == "a" && !injected {
						injected = true
						syscall.Kill(os.Getpid(), sigOf(injSig))
						time.Sleep(30 * time.Millisecond) // let the second handler run into the first one's critical section
					}
					if ovSig != "" && name == "a" {
						switch {
						case kind == "startup" && k == ovNew && !ovSignalled:
							ovSignalled = true
							syscall.Kill(os.Getpid(), sigOf(ovSig))
							select {
							case <-ovGate1:
							case <-time.After(1500 * time.Millisecond):
								trace("#gate 1 timed out (the handler did not reach the old instance's final-shutdown callback)")
							}
						case kind == "final-shutdown" && k == ovOld:
							ovOnce1.Do(func() { close(ovGate1) })
						}
					}
					if fails[kind] {
						return fmt.Errorf("%s callback failure injected", kind)
					}
					return nil
				}
			}
			c.OnFirstStartup(mk("first-startup"))
			c.OnStartup(mk("startup"))
			c.OnRestart(mk("restart"))
			c.OnRestartFailed(mk("restart-failed"))
			c.OnShutdown(mk("shutdown"))
			c.OnFinalShutdown(mk("final-shutdown"))
		}
		return nil
	}})
	// srv <k> <n> graceful|plain [listenfail]
	casket.RegisterPlugin("srv", casket.Plugin{ServerType: "life", Action: func(c *casket.Controller) error {
		ctx := c.Context().(*lifeCtx)
		for c.Next() {
			args := c.RemainingArgs()
			if len(args) < 3 {
				return c.ArgErr()
			}
			var k, n int
			fmt.Sscan(args[0], &k)
			fmt.Sscan(args[1], &n)
			p := plainSrv{k: k, n: n, listenFail: len(args) > 3 && args[3] == "listenfail", stopErr: len(args) > 3 && args[3] == "stoperr"}
			if args[2] == "graceful" {
				ctx.servers = append(ctx.servers, &gracefulSrv{plainSrv: p, stop: make(chan struct{})})
			} else {
				ctx.servers = append(ctx.servers, &p)
			}
		}
		return nil
	}})
}

func configFor(k int, e event) string {
	if e.Fail == "parse" {
		return fmt.Sprintf("site%d {\n\tcb a %d\n", k, k)
	}
	var b strings.Builder
	fmt.Fprintf(&b, "site%d {\n", k)
	opt := ""
	if e.Fail == "first-startup" || e.Fail == "startup" {
		opt = " fail=" + e.Fail
	}
	if e.RestartFails {
		opt += " fail=restart"
	}
	fmt.Fprintf(&b, "\tcb a %d%s\n\tcb b %d\n", k, opt, k)
	if e.Fail == "setup" {
		b.WriteString("\tcb onlyonearg\n")
	}
	if e.StopErr {
		fmt.Fprintf(&b, "\tsrv %d 1 graceful stoperr\n", k)
	} else {
		fmt.Fprintf(&b, "\tsrv %d 1 graceful\n", k)
	}
	kind := "graceful"
	if e.Plain {
		kind = "plain"
	}
	if e.Fail == "listen" {
		fmt.Fprintf(&b, "\tsrv %d 2 %s listenfail\n", k, kind)
	} else {
		fmt.Fprintf(&b, "\tsrv %d 2 %s\n", k, kind)
	}
	b.WriteString("}\n")
	return b.String()
}

func child(h history) {
	kit.Init()
	registerLife()
	injAt, injSig = h.InjectAt, h.InjectSig
	var curMu sync.Mutex
	cur := ""
	casket.RegisterCasketfileLoader("life", casket.LoaderFunc(func(st string) (casket.Input, error) {
		curMu.Lock()
		defer curMu.Unlock()
		return casket.CasketfileInput{Contents: []byte(cur), Filepath: "Lifefile", ServerTypeName: "life"}, nil
	}))
	casket.TrapSignals()
	time.Sleep(20 * time.Millisecond)
	var inst *casket.Instance
	k := 0
	waitStarted := false
	if h.Overlap != "" {
		n := 0
		for _, e := range h.Events {
			if e.Op == "start" || e.Op == "reload" || e.Op == "usr1" {
				n++
			}
		}
		ovSig, ovNew, ovOld = h.Overlap, fmt.Sprint(n), fmt.Sprint(n-1)
	}
	for ei, e := range h.Events {
		trace("#%s", describe(e))
		switch e.Op {
		case "start", "reload", "usr1":
			k++
			text := configFor(k, e)
			curMu.Lock()
			cur = text
			curMu.Unlock()
			in := casket.CasketfileInput{Contents: []byte(text), Filepath: "Lifefile", ServerTypeName: "life"}
			switch e.Op {
			case "start":
				if _, err := casket.LoadCasketfile("life"); err != nil {
					trace("!loader: %v", err)
				}
				ni, err := casket.Start(in)
				if err == nil {
					inst = ni
					trace("started(%d)", k)
					if !waitStarted {
						waitStarted = true
						go func(i *casket.Instance, k int) {
							i.Wait()
							trace("~wait-returned(%d)", k)
						}(ni, k)
					}
				} else {
					trace("start-failed(%d)", k)
				}
			case "reload":
				ni, err := inst.Restart(in)
				if err == nil {
					inst = ni
					trace("reloaded(%d)", k)
				} else {
					trace("reload-failed(%d)", k)
				}
			case "usr1":
				mark := kit.Log.Mark()
				syscall.Kill(os.Getpid(), syscall.SIGUSR1)
				deadline := time.Now().Add(30 * time.Second)
				done := false
				for !done && time.Now().Before(deadline) {
					for _, l := range kit.Log.Since(mark) {
						if strings.Contains(l, "Reloading complete") {
							insts := casket.Instances()
							inst = insts[len(insts)-1]
							trace("reloaded(%d)", k)
							done = true
							break
						}
						if strings.Contains(l, "[ERROR] SIGUSR1") {
							trace("reload-failed(%d)", k)
							done = true
							break
						}
					}
					time.Sleep(time.Millisecond)
				}
				if !done {
					trace("!usr1 did not finish; process log since the signal: %q", kit.Log.Since(mark))
				}
			}
		case "stop":
			casket.Stop()
			trace("stopped")
		case "INT", "TERM", "QUIT":
			armed = true
			syscall.Kill(os.Getpid(), sigOf(e.Op))
			time.Sleep(20 * time.Second)
			trace("!signal %s did not end the process", e.Op)
			os.Exit(98)
		}
		if h.Overlap != "" && ei == len(h.Events)-1 {
			close(ovGate2)
			time.Sleep(5 * time.Second) // the signal's handler ends the process
			trace("!the overlapping signal %s did not end the process", h.Overlap)
			os.Exit(98)
		}
		time.Sleep(3 * time.Millisecond) // let server goroutines reach their trace points
	}
	time.Sleep(10 * time.Millisecond)
	trace("#end")
	os.Exit(0)
}

func describe(e event) string {
	s := e.Op
	if e.Fail != "" {
		s += "/fail@" + e.Fail
	}
	if e.RestartFails {
		s += "/restart-cb-will-fail"
	}
	if e.Plain {
		s += "/plain-server"
	}
	if e.StopErr {
		s += "/server-stop-reports-an-error"
	}
	return s
}

// ---------- reference model ----------

type modelInst struct {
	k            int
	restartFails bool
	plain        bool
}

type expectation struct {
	sync      []string // ordered synchronous events
	exit      int
	ends      bool // the process ends by a signal
	liveAtEnd []int
	allExit   bool // every server of the lineage has been stopped (Wait may return)
}

func cbs(kind string, k int, failsA bool) []string {
	out := []string{fmt.Sprintf("%s(%d).a", kind, k)}
	if !failsA {
		out = append(out, fmt.Sprintf("%s(%d).b", kind, k))
	}
	return out
}

func model(h history) (exp expectation, valid bool) {
	var live *modelInst
	everStarted := false
	stopped := false
	k := 0
	unstoppable := false
	for _, e := range h.Events {
		switch e.Op {
		case "start":
			if live != nil || everStarted {
				return exp, false // one lineage per history
			}
			k++
			exp.sync = append(exp.sync)
			switch e.Fail {
			case "parse", "setup":
				exp.sync = append(exp.sync, fmt.Sprintf("start-failed(%d)", k))
				continue
			}
			exp.sync = append(exp.sync, cbs("first-startup", k, e.Fail == "first-startup")...)
			if e.Fail == "first-startup" {
				exp.sync = append(exp.sync, fmt.Sprintf("start-failed(%d)", k))
				continue
			}
			exp.sync = append(exp.sync, cbs("startup", k, e.Fail == "startup")...)
			if e.Fail == "startup" {
				exp.sync = append(exp.sync, fmt.Sprintf("start-failed(%d)", k))
				continue
			}
			exp.sync = append(exp.sync, fmt.Sprintf("listen(%d,1)", k), fmt.Sprintf("listen(%d,2)", k))
			if e.Fail == "listen" {
				exp.sync = append(exp.sync, fmt.Sprintf("start-failed(%d)", k))
				continue
			}
			exp.sync = append(exp.sync, fmt.Sprintf("started(%d)", k))
			live = &modelInst{k, e.RestartFails, e.Plain}
			everStarted = true
			unstoppable = unstoppable || e.Plain
		case "reload", "usr1":
			if live == nil {
				return exp, false
			}
			k++
			old := live
			exp.sync = append(exp.sync, cbs("restart", old.k, old.restartFails)...)
			failed := old.restartFails
			if !failed {
				switch e.Fail {
				case "parse", "setup":
					failed = true
				case "first-startup":
					// first-startup callbacks do not run on a reload: the configuration loads
				}
			}
			if !failed {
				exp.sync = append(exp.sync, cbs("startup", k, e.Fail == "startup")...)
				if e.Fail == "startup" {
					failed = true
				}
			}
			if !failed {
				exp.sync = append(exp.sync, fmt.Sprintf("listen(%d,1)", k), fmt.Sprintf("listen(%d,2)", k))
				if e.Fail == "listen" {
					failed = true
				}
			}
			if failed {
				exp.sync = append(exp.sync, cbs("restart-failed", old.k, false)...)
				exp.sync = append(exp.sync, fmt.Sprintf("reload-failed(%d)", k))
				continue
			}
			exp.sync = append(exp.sync, fmt.Sprintf("stop(%d,1)", old.k))
			if !old.plain {
				exp.sync = append(exp.sync, fmt.Sprintf("stop(%d,2)", old.k))
			}
			exp.sync = append(exp.sync, cbs("shutdown", old.k, false)...)
			exp.sync = append(exp.sync, fmt.Sprintf("reloaded(%d)", k))
			live = &modelInst{k, e.RestartFails, e.Plain}
			unstoppable = unstoppable || e.Plain
		case "stop":
			if live != nil {
				exp.sync = append(exp.sync, fmt.Sprintf("stop(%d,1)", live.k))
				if !live.plain {
					exp.sync = append(exp.sync, fmt.Sprintf("stop(%d,2)", live.k))
				}
				live = nil
				stopped = true
			}
			exp.sync = append(exp.sync, "stopped")
		case "INT", "TERM":
			if live != nil {
				exp.sync = append(exp.sync, cbs("shutdown", live.k, false)...)
				exp.sync = append(exp.sync, cbs("final-shutdown", live.k, false)...)
				if e.Op == "TERM" {
					exp.sync = append(exp.sync, fmt.Sprintf("stop(%d,1)", live.k))
					if !live.plain {
						exp.sync = append(exp.sync, fmt.Sprintf("stop(%d,2)", live.k))
					}
				}
			}
			exp.ends, exp.exit = true, 0
			return exp, true
		case "QUIT":
			exp.ends, exp.exit = true, 0
			return exp, true
		}
	}
	if live != nil {
		exp.liveAtEnd = []int{live.k}
	}
	exp.allExit = everStarted && live == nil && stopped && !unstoppable
	return exp, true
}

// ---------- parent ----------

type c16case struct {
	History  history  `json:"history"`
	Expected []string `json:"expected_synchronous_trace"`
	Observed []string `json:"observed_trace"`
	Exit     int      `json:"exit_code"`
}

func runChild(h history) (tr []string, code int, err error) {
	hj, _ := json.Marshal(h)
	cmd := exec.Command(os.Args[0], "-history", string(hj))
	out, rerr := cmd.Output()
	how := ""
	if ee, ok := rerr.(*exec.ExitError); ok {
		code = ee.ExitCode()
		if code < 0 {
			how = "#child ended: " + ee.ProcessState.String()
		}
	} else if rerr != nil {
		return nil, 0, rerr
	}
	for _, l := range strings.Split(string(out), "\n") {
		if strings.HasPrefix(l, "EV ") {
			tr = append(tr, l[3:])
		}
	}
	if how != "" {
		tr = append(tr, how)
	}
	return
}

func stuck(tr []string) bool {
	for _, e := range tr {
		if strings.HasPrefix(e, "!") || strings.HasPrefix(e, "#child ended") {
			return true // a backstop fired, or the child was ended by a signal instead of exiting: re-run before believing it
		}
	}
	return false
}

func main() {
	flag.Parse()
	if *flagHistory != "" {
		var h history
		if err := json.Unmarshal([]byte(*flagHistory), &h); err != nil {
			panic(err)
		}
		child(h)
		return
	}
	rep := kit.NewReport("C16", "model_checking",
		"every history of start + <=2 (thorough 3) further events over {reload via API / via real SIGUSR1 (ok, or failing at parse, setup, startup, listen, or through a failing restart callback), stop, SIGINT, SIGTERM, SIGQUIT}, with graceful and non-graceful servers and servers whose stop reports an error, plus histories with a second signal (INT/TERM) injected from inside the first shutdown / final-shutdown callback, and histories in which INT or TERM arrives while a reload runs its startup callbacks (two gates order the handler and the reload); one child process per history on a fake server type; the ordered callback/listen/stop trace and the exit code are compared with an executable reference model; distinct_nontrivial = history classes")
	starts := []event{{Op: "start"}, {Op: "start", Fail: "parse"}, {Op: "start", Fail: "setup"}, {Op: "start", Fail: "first-startup"}, {Op: "start", Fail: "startup"}, {Op: "start", Fail: "listen"}, {Op: "start", RestartFails: true}, {Op: "start", Plain: true}, {Op: "start", StopErr: true}}
	var steps []event
	for _, op := range []string{"reload", "usr1"} {
		for _, f := range []string{"", "parse", "setup", "startup", "listen", "first-startup"} {
			steps = append(steps, event{Op: op, Fail: f})
		}
		steps = append(steps, event{Op: op, RestartFails: true}, event{Op: op, Plain: true}, event{Op: op, StopErr: true})
	}
	steps = append(steps, event{Op: "stop"}, event{Op: "INT"}, event{Op: "TERM"}, event{Op: "QUIT"})
	depth := 2
	if rep.Thorough() {
		depth = 3
	}
	var hs []history
	var rec func(cur []event, d int)
	rec = func(cur []event, d int) {
		hs = append(hs, history{Events: append([]event{}, cur...)})
		last := cur[len(cur)-1]
		if d == depth || last.Op == "INT" || last.Op == "TERM" || last.Op == "QUIT" {
			return
		}
		for _, s := range steps {
			rec(append(cur, s), d+1)
		}
	}
	for _, s := range starts {
		rec([]event{s}, 0)
	}
	// second signal injected from inside a callback of the first signal's shutdown
	base := [][]event{{{Op: "start"}}, {{Op: "start"}, {Op: "reload"}}, {{Op: "start"}, {Op: "usr1"}}, {{Op: "start"}, {Op: "reload", Fail: "startup"}}}
	for _, b := range base {
		for _, first := range []string{"INT", "TERM"} {
			for _, at := range []string{"shutdown", "final-shutdown"} {
				for _, second := range []string{"INT", "TERM"} {
					hs = append(hs, history{Events: append(append([]event{}, b...), event{Op: first}), InjectAt: at, InjectSig: second})
				}
			}
		}
	}
	var valid []history
	var exps []expectation
	for _, h := range hs {
		if e, ok := model(h); ok {
			valid = append(valid, h)
			exps = append(exps, e)
		}
	}
	// a shutdown signal that overlaps a successful reload (see history.Overlap). SIGTERM and SIGUSR1 are handled by one
	// goroutine, one after the other, so that pair cannot overlap and is left out.
	for _, pre := range [][]event{{{Op: "start"}}, {{Op: "start"}, {Op: "reload"}}, {{Op: "start", Plain: true}}} {
		for _, rl := range []string{"reload", "usr1"} {
			for _, sig := range []string{"INT", "TERM"} {
				if rl == "usr1" && sig == "TERM" {
					continue
				}
				h := history{Events: append(append([]event{}, pre...), event{Op: rl}), Overlap: sig}
				e, _ := model(history{Events: append(append([]event{}, h.Events...), event{Op: sig})})
				valid = append(valid, h)
				exps = append(exps, e)
			}
		}
	}
	rep.Set("histories", len(valid))
	traces := make([][]string, len(valid))
	codes := make([]int, len(valid))
	errs := make([]error, len(valid))
	kit.Parallel(len(valid), func(i int) bool {
		if rep.Expired() {
			rep.Capped("deadline")
			return false
		}
		traces[i], codes[i], errs[i] = runChild(valid[i])
		// a run that hit a backstop ("!...") is only believed if it does so again, twice, in fresh processes
		for again := 0; again < 2 && errs[i] == nil && stuck(traces[i]); again++ {
			rep.AddInt("backstop_reruns", 1)
			t2, c2, e2 := runChild(valid[i])
			if e2 != nil || !stuck(t2) {
				traces[i], codes[i], errs[i] = t2, c2, e2
				break
			}
		}
		rep.Eval(1)
		return true
	})
	states := map[string]bool{}
	transitions := 0
	for i, h := range valid {
		if errs[i] != nil {
			rep.Broken("child: %v", errs[i])
		}
		if traces[i] == nil && !rep.Expired() {
			rep.Broken("history %v produced no trace", h)
		}
		if traces[i] == nil {
			continue
		}
		exp := exps[i]
		var syncObs, async []string
		problems := ""
		for _, ev := range traces[i] {
			switch {
			case strings.HasPrefix(ev, "#"):
			case strings.HasPrefix(ev, "!"):
				problems = ev
			case strings.HasPrefix(ev, "~"):
				async = append(async, ev)
			default:
				syncObs = append(syncObs, ev)
			}
		}
		transitions += len(h.Events)
		states[strings.Join(exp.sync, ",")] = true
		mkcase := func() c16case { return c16case{h, exp.sync, traces[i], codes[i]} }
		tag := ""
		for _, e := range h.Events[1:] {
			tag += "/" + describe(e)
		}
		if tag == "" {
			tag = "/" + describe(h.Events[0])
		}
		if problems != "" {
			rep.Violation("C16/stuck"+tag, problems, mkcase())
			continue
		}
		if h.Overlap != "" {
			// every shutdown and final-shutdown callback of every instance runs exactly once, whichever of the two (the reload,
			// the signal's handler) runs it; the order between the two is free
			cnt := map[string]int{}
			for _, e := range syncObs {
				cnt[e]++
			}
			for e, n := range cnt {
				if n > 1 && (strings.HasPrefix(e, "shutdown") || strings.HasPrefix(e, "final-shutdown")) {
					rep.Violation("C16/shutdown-callback-ran-twice/signal-during-reload", fmt.Sprintf("%s ran %d times: %s arrived while the reload was running its startup callbacks", e, n, h.Overlap), mkcase())
				}
			}
			for _, e := range exp.sync {
				if (strings.HasPrefix(e, "shutdown") || strings.HasPrefix(e, "final-shutdown")) && cnt[e] == 0 {
					rep.Violation("C16/shutdown-callback-skipped/signal-during-reload", fmt.Sprintf("%s did not run: %s arrived while the reload was running its startup callbacks", e, h.Overlap), mkcase())
				}
			}
			rep.Class("signal-during-reload/" + h.Overlap)
			if os.Getenv("C16_DUMP") != "" { // (debugging aid)
				fmt.Printf("OVERLAP %+v exit=%d\n  %s\n", h, codes[i], strings.Join(traces[i], "\n  "))
			}
			continue
		}
		if h.InjectAt == "" {
			if strings.Join(syncObs, " ") != strings.Join(exp.sync, " ") {
				kind := "trace-differs"
				// classify: duplicates / missing / extra
				cnt := map[string]int{}
				for _, e := range syncObs {
					cnt[e]++
				}
				for e, n := range cnt {
					if n > 1 {
						kind = "callback-ran-twice:" + strings.SplitN(e, "(", 2)[0]
					}
				}
				if kind == "trace-differs" {
					want := map[string]bool{}
					for _, e := range exp.sync {
						want[e] = true
					}
					for _, e := range syncObs {
						if !want[e] {
							kind = "unexpected:" + strings.SplitN(e, "(", 2)[0]
						}
					}
					for _, e := range exp.sync {
						if cnt[e] == 0 && kind == "trace-differs" {
							kind = "missing:" + strings.SplitN(e, "(", 2)[0]
						}
					}
				}
				rep.Violation("C16/"+kind+tag, fmt.Sprintf("observed %v, reference model %v", syncObs, exp.sync), mkcase())
			}
			if codes[i] != exp.exit {
				rep.Violation("C16/exit-code"+tag, fmt.Sprintf("exit code %d, expected %d", codes[i], exp.exit), mkcase())
			}
		} else {
			// concurrent second signal: constraints
			cnt := map[string]int{}
			for _, e := range syncObs {
				cnt[e]++
			}
			for e, n := range cnt {
				if n > 1 && (strings.HasPrefix(e, "shutdown") || strings.HasPrefix(e, "final-shutdown")) {
					rep.Violation("C16/shutdown-callback-ran-twice/second-signal", fmt.Sprintf("%s ran %d times with a second %s arriving during %s", e, n, h.InjectSig, h.InjectAt), mkcase())
				}
			}
			forced := h.Events[len(h.Events)-1].Op == "INT" && h.InjectSig == "INT" // a second SIGINT forces exit 2 and may cut the run short
			if !forced {
				for _, e := range exp.sync {
					if (strings.HasPrefix(e, "shutdown") || strings.HasPrefix(e, "final-shutdown")) && cnt[e] != 1 {
						rep.Violation("C16/shutdown-callback-skipped/second-signal", fmt.Sprintf("%s ran %d times with a second %s arriving during %s", e, cnt[e], h.InjectSig, h.InjectAt), mkcase())
					}
				}
				if codes[i] != 0 {
					rep.Violation("C16/exit-code/second-signal", fmt.Sprintf("exit code %d", codes[i]), mkcase())
				}
			} else if codes[i] != 2 && codes[i] != 0 {
				rep.Violation("C16/exit-code/second-signal", fmt.Sprintf("exit code %d", codes[i]), mkcase())
			}
		}
		// Wait returns only after every server of the lineage has left Serve
		waitAt, lastExit, serves, exits := -1, -1, 0, 0
		for j, ev := range traces[i] {
			if strings.HasPrefix(ev, "~wait-returned") {
				waitAt = j
			}
			if strings.HasPrefix(ev, "~serve-exit") {
				lastExit = j
				exits++
			}
			if strings.HasPrefix(ev, "~serve(") {
				serves++
			}
		}
		if waitAt >= 0 && (exits < serves || lastExit > waitAt) {
			rep.Violation("C16/wait-returned-early"+tag, fmt.Sprintf("Wait returned while %d of %d started servers had not left Serve", serves-exits, serves), mkcase())
		}
		cl := fmt.Sprintf("depth=%d", len(h.Events))
		if exp.ends {
			cl += "/ends-by-signal"
		}
		if h.InjectAt != "" {
			cl += "/second-signal"
		}
		rep.Class(cl)
	}
	rep.Set("states", len(states))
	rep.Set("transitions", transitions)
	rep.Set("traces_validated_against_impl", len(valid))
	rep.Set("trace_validation", "every history of the reference model is executed on the real implementation (casket.Start/Restart/Stop, real signals to a child process) and the traces are compared event by event")
	rep.Sample(valid[len(valid)/3])
	rep.Sample(valid[len(valid)-1])
	rep.Assume("shutdown-callback errors are outside the statement; one instance lineage per history; the second signal is injected at callback granularity")
	rep.Finish()
}
