// C03 — protected paths are never disclosed without valid credentials.
package main

import (
	"crypto/sha1"
	"encoding/base64"
	"fmt"
	"net"
	"net/http"
	"net/http/fcgi"
	"os"
	"path"
	"path/filepath"
	"regexp"
	"sort"
	"strings"
	"time"

	"verif/internal/kit"
)

type rule struct {
	scopes, excludes []string
	user, pw         string
}

func (r rule) covers(resource string) bool {
	in := false
	for _, s := range r.scopes {
		if matches(resource, s) {
			in = true
		}
	}
	for _, e := range r.excludes {
		if matches(resource, e) {
			in = false
		}
	}
	return in
}

type protection struct {
	name     string
	line     string // Casketfile lines
	scopes   []string
	excludes []string
	internal bool
	more     []rule // further rules (the first is scopes/excludes with u:p)
}

// authorized reports whether the presented credentials are valid for a rule covering resource.
func (pr protection) authorized(resource, user, pw string) bool {
	rules := append([]rule{{pr.scopes, pr.excludes, "u", "p"}}, pr.more...)
	for _, r := range rules {
		if r.covers(resource) && !pr.internal && r.user == user && r.pw == pw && user != "" {
			return true
		}
	}
	return false
}

// matches is the documented path matcher: cleaned, case-insensitive prefix.
func matches(reqPath, base string) bool {
	if base == "/" || base == "" {
		return true
	}
	// (a final dot segment names a directory: /a/b/.. is /a/)
	pTrail := strings.HasSuffix(reqPath, "/") || strings.HasSuffix(reqPath, "/.") || strings.HasSuffix(reqPath, "/..")
	bTrail := strings.HasSuffix(base, "/")
	p := path.Clean("/" + reqPath)
	b := path.Clean(base)
	if pTrail && p != "/" {
		p += "/"
	}
	if bTrail {
		b += "/"
	}
	return strings.HasPrefix(strings.ToLower(p), strings.ToLower(b))
}

func (pr protection) inScope(resource string) bool {
	for _, r := range pr.more {
		if r.covers(resource) {
			return true
		}
	}
	in := false
	for _, s := range pr.scopes {
		if matches(resource, s) {
			in = true
		}
	}
	for _, e := range pr.excludes {
		if matches(resource, e) {
			in = false
		}
	}
	return in
}

var staticFiles = []string{"home.html", "pub/p.txt", "secret/s.txt", "secret/s.txt.gz", "secret/index.html", "secret/sub/deep.txt", "secret/page.md", "secret/t.html", "secret/excluded/e.txt", "secret/i.php", "secret/s.html", "secret/excluded2/e2.txt", "idx/index.md", "idx/other.txt", "idh/index.html", "idh/other.txt"}

var backendTok = regexp.MustCompile(`[PF]TOK\[(.*?)\]END`)

type c03case struct {
	Casketfile string   `json:"casketfile"`
	Request    string   `json:"request"`
	Status     int      `json:"status"`
	Disclosed  []string `json:"disclosed_resources"`
	Note       string   `json:"note,omitempty"`
}

func main() {
	rep := kit.NewReport("C03", "exploration",
		"9 protection lines (basicauth with dir / dir+slash / single file / block with exclude, with and without trailing slash / two rules; internal for a directory and for single files that are their directory's index page) x every subset of size <=2 (thorough 3) of an 18-line menu of path-rewriting and content-producing directives (rewrite abs/relative/regexp, tryfiles, ext, index, gzip, browse with and without archives, templates, markdown, proxy, fastcgi, redir) x ~300 request targets (spellings of protected names, rewrite triggers, archive queries, absolute-form and opaque request targets) x methods x Accept-Encoding x credentials {none, wrong user, wrong password, valid}; unique tokens in every protected file and backend reply; valid-credential responses compared with the unprotected site; distinct_nontrivial = outcome classes")
	kit.Init()
	kit.Log.Off.Store(true)
	base := kit.TempDir("c03")
	defer os.RemoveAll(base)
	root := filepath.Join(base, "root")
	tokens := map[string]string{}
	for _, f := range staticFiles {
		tokens["/"+f] = kit.Token(f)
		content := "<p>" + tokens["/"+f] + "</p>\n"
		if strings.HasSuffix(f, ".gz") {
			content = string(kit.GzipBytes([]byte(content)))
		}
		kit.WriteFile(root, f, content)
	}
	// backends
	psock := filepath.Join(base, "p.sock")
	pln, err := net.Listen("unix", psock)
	if err != nil {
		rep.Broken("listen: %v", err)
	}
	go http.Serve(pln, http.HandlerFunc(func(w http.ResponseWriter, r *http.Request) {
		fmt.Fprintf(w, "backend says PTOK[%s]END", r.URL.Path)
	}))
	fsock := filepath.Join(base, "f.sock")
	fln, err := net.Listen("unix", fsock)
	if err != nil {
		rep.Broken("listen: %v", err)
	}
	go fcgi.Serve(fln, http.HandlerFunc(func(w http.ResponseWriter, r *http.Request) {
		env := fcgi.ProcessEnv(r)
		// SCRIPT_NAME is consumed by net/http/fcgi; the script the responder would execute is SCRIPT_FILENAME
		script := strings.TrimPrefix(filepath.ToSlash(env["SCRIPT_FILENAME"]), filepath.ToSlash(root))
		fmt.Fprintf(w, "responder says FTOK[%s]END", path.Clean("/"+script))
	}))
	defer pln.Close()
	defer fln.Close()

	protections := []protection{
		{"basicauth-dir", "basicauth /secret u p", []string{"/secret"}, nil, false, nil},
		{"basicauth-dir-slash", "basicauth /secret/ u p", []string{"/secret/"}, nil, false, nil},
		{"basicauth-file", "basicauth /secret/s.txt u p", []string{"/secret/s.txt"}, nil, false, nil},
		{"basicauth-block-exclude", "basicauth u p {\n\t\t/secret\n\t\texclude /secret/excluded\n\t}", []string{"/secret"}, []string{"/secret/excluded"}, false, nil},
		{"internal", "internal /secret", []string{"/secret"}, nil, true, nil},
		// the excluded directory written with a trailing slash: its sibling /secret/excluded2 stays protected
		{"basicauth-block-exclude-slash", "basicauth u p {\n\t\t/secret\n\t\texclude /secret/excluded/\n\t}", []string{"/secret"}, []string{"/secret/excluded/"}, false, nil},
		// single files that are the index page of their directory (for markdown, and for the file server)
		{"internal-index-md", "internal /idx/index.md", []string{"/idx/index.md"}, nil, true, nil},
		{"internal-index-html", "internal /idh/index.html", []string{"/idh/index.html"}, nil, true, nil},
		{"basicauth-two-rules", "basicauth u p {\n\t\t/secret\n\t\texclude /secret/excluded\n\t}\n\tbasicauth /secret/excluded u2 p2", []string{"/secret"}, []string{"/secret/excluded"}, false,
			[]rule{{[]string{"/secret/excluded"}, nil, "u2", "p2"}}},
	}
	menu := []string{
		"rewrite /pub /secret/s.txt",
		"rewrite /pub secret/s.txt",
		"rewrite {\n\t\tregexp ^/r/(.*)$\n\t\tto /secret/{1}\n\t}",
		"rewrite /pub2 /secret/sub/../s.txt",
		"tryfiles {path} /secret/s.txt",
		"tryfiles",
		"ext .txt .html",
		"index s.txt",
		"gzip",
		"browse /",
		"browse / {\n\t\tservearchive\n\t}",
		"templates",
		"markdown /",
		"proxy / unix:" + psock,
		"proxy /secret unix:" + psock,
		"fastcgi /secret unix:" + fsock + " {\n\t\text .php\n\t\tsplit .php\n\t\tindex i.php\n\t}",
		"redir /old /secret/s.txt",
		"fastcgi / unix:" + fsock + " {\n\t\text .php\n\t\tsplit .php\n\t\tindex i.php\n\t}",
	}
	maxSub := 2
	if rep.Thorough() {
		maxSub = 3
	}
	var subsets [][]int
	kit.Subsets(len(menu), 0, maxSub, func(idx []int) {
		// two lines of the same directive are fine except two proxies on overlapping paths / two browse on the same scope / two tryfiles
		seen := map[string]int{}
		for _, i := range idx {
			seen[strings.Fields(menu[i])[0]]++
		}
		if seen["browse"] > 1 || seen["tryfiles"] > 1 || seen["proxy"] > 1 || seen["fastcgi"] > 1 {
			return
		}
		subsets = append(subsets, idx)
	})
	// request targets
	names := []string{"/secret/s.txt", "/secret", "/secret/", "/secret/sub/deep.txt", "/secret/page.md", "/secret/t.html", "/secret/excluded/e.txt", "/secret/index.html", "/secret/i.php", "/secret/s", "/secret/s.txt.gz", "/secret/excluded2/e2.txt"}
	var targets []string
	add := func(t string) { targets = append(targets, t) }
	for _, n := range names {
		add(n)
		add("/" + n)                                               // doubled leading slash
		add(strings.Replace(n, "/secret", "/./secret", 1))         // dot segment
		add(strings.Replace(n, "/secret", "/pub/../secret", 1))    // dot-dot
		add(strings.Replace(n, "/secret", "/secret/.", 1))         // inner dot
		add(strings.Replace(n, "/secret", "/secret//", 1))         // inner double slash
		add(strings.Replace(n, "/secret", "/%73ecret", 1))         // encoded letter
		add(strings.Replace(n, "/secret", "/SECRET", 1))           // case
		add(strings.Replace(n, "/secret", "/%2e/secret", 1))       // encoded dot segment
		add(strings.Replace(n, "/secret", "/x/%2e%2e/secret", 1))  // encoded dot-dot
		add(strings.Replace(n, "/secret/", "/secret%2f", 1))       // encoded slash
		add(strings.Replace(n, "/secret", "/secret/../secret", 1)) // in and out
		add(n + "/")                                               // trailing slash
		add(strings.Replace(n, "/secret", "\\secret", 1))          // backslash (rejected by net/http if invalid)
		add(n + "?archive=zip")
		// suffixes some handlers strip before resolving the name
		add(n + ".")
		add(n + "%20")
		add(n + "/.")
		add(n + "/..")
		add(n + "/...")
		add(n + "/..%20")
		// a way out again behind the protected name (handlers that read the path as sent may stop at the name)
		add(n + "/../../pub/p.txt")
		add(n + "/../../nothing")
	}
	// the directories whose index pages are protected on their own
	for _, d := range []string{"/idx", "/idh"} {
		for _, t := range []string{d, d + "/", "/" + d + "//", d + "/./", "/pub/.." + d + "/", d + "/index.md", d + "/index.html", d + "/other.txt", d + "/?archive=zip", strings.ToUpper(d) + "/"} {
			add(t)
		}
	}
	// request targets that are not paths: absolute-form with and without a path, and opaque ones (scheme:rest); handlers that
	// read r.URL.Path see "" for the latter while the proxy builds the upstream path from the opaque part
	for _, t := range []string{"http://a.test/secret/s.txt", "x:secret/s.txt", "x:secret/sub/deep.txt", "x:/secret/s.txt", "http:secret/s.txt", "x:idx/index.md"} {
		add(t)
	}
	for _, t := range []string{"/", "/pub", "/pub/p.txt", "/pub2", "/r/s.txt", "/r/sub/deep.txt", "/r/../secret/s.txt", "/s", "/old", "/?archive=zip", "/?archive=tar.gz", "/pub/?archive=zip", "/home.html", "/nothing", "/secret?archive=zip", "/secret/?archive=tar.gz", "/secret/sub/?archive=zip", "/r/?archive=zip", "/r/", "/pub/../secret/", "/secret/sub/"} {
		add(t)
	}
	rep.Set("targets", len(targets))
	rep.Set("configurations", len(subsets)*len(protections))
	auth := func(u, p string) string {
		return "Authorization: Basic " + base64.StdEncoding.EncodeToString([]byte(u+":"+p))
	}
	creds := []struct{ name, hdr, user, pw string }{{"none", "", "", ""}, {"wrong-user", auth("x", "p"), "x", "p"}, {"wrong-password", auth("u", "q"), "u", "q"}, {"valid", auth("u", "p"), "u", "p"}, {"valid-second-rule", auth("u2", "p2"), "u2", "p2"}}

	type job struct {
		pr  protection
		sub []int
	}
	var jobs []job
	for _, pr := range protections {
		for _, sub := range subsets {
			jobs = append(jobs, job{pr, sub})
		}
	}
	kit.Parallel(len(jobs), func(ji int) bool {
		if rep.Expired() {
			rep.Capped("deadline")
			return false
		}
		j := jobs[ji]
		var lines []string
		for _, i := range j.sub {
			lines = append(lines, "\t"+menu[i])
		}
		mk := func(withProt bool) string {
			s := fmt.Sprintf("a.test:8080 {\n\troot %s\n", root)
			if withProt {
				s += "\t" + j.pr.line + "\n"
			}
			return s + strings.Join(lines, "\n") + "\n}\n"
		}
		cf := mk(true)
		l, err := kit.Load(cf, filepath.Join(base, "Casketfile"))
		if err != nil {
			rep.Eval(1)
			rep.Class("config-rejected")
			return true
		}
		defer l.Close()
		var plain *kit.Loaded
		if !j.pr.internal {
			plain, err = kit.Load(mk(false), filepath.Join(base, "Casketfile"))
			if err != nil {
				rep.Broken("unprotected twin does not load: %v", err)
			}
			defer plain.Close()
		}
		srv := l.Server("")
		local := map[string]int64{}
		// discloses re-runs one request on a site made of the protection plus the given menu lines
		discloses := func(sub []int, raw string) bool {
			var ls []string
			for _, i := range sub {
				ls = append(ls, "\t"+menu[i])
			}
			cf2 := fmt.Sprintf("a.test:8080 {\n\troot %s\n\t%s\n%s\n}\n", root, j.pr.line, strings.Join(ls, "\n"))
			l2, err := kit.Load(cf2, filepath.Join(base, "Casketfile"))
			if err != nil {
				return false
			}
			defer l2.Close()
			rq, _ := kit.Req(raw)
			rc, _, _ := kit.ServeReq(l2.Server(""), rq)
			text := rc.Body.String()
			if dec, err := kit.Gunzip(rc.Body.Bytes()); err == nil {
				text = string(dec)
			}
			if members, ok := kit.Unarchive([]byte(text)); ok {
				text = ""
				for _, c := range members {
					text += c
				}
			}
			for res, tok := range tokens {
				if strings.Contains(text, tok) && j.pr.inScope(res) {
					return true
				}
			}
			for _, mm := range backendTok.FindAllStringSubmatch(text, -1) {
				if j.pr.inScope(mm[1]) {
					return true
				}
			}
			return false
		}
		attributed := map[string]string{}
		// mechanism names the minimal set of menu directives needed for the disclosure (greedy removal)
		mechanism := func(how, raw string) string {
			if m, ok := attributed[how]; ok {
				return m
			}
			need := append([]int{}, j.sub...)
			for k := 0; k < len(need); {
				without := append(append([]int{}, need[:k]...), need[k+1:]...)
				if discloses(without, raw) {
					need = without
				} else {
					k++
				}
			}
			var names []string
			for _, i := range need {
				names = append(names, strings.Fields(menu[i])[0])
			}
			sort.Strings(names)
			m := "with=" + strings.Join(names, "+")
			if len(names) == 0 {
				m = "with=nothing-else"
			}
			attributed[how] = m
			return m
		}
		for _, tgt := range targets {
			for ci, cr := range creds {
				if j.pr.internal && ci > 0 {
					continue
				}
				for _, ae := range []string{"", "gzip"} {
					methods := []string{"GET"}
					if ci == 0 && ae == "" {
						methods = []string{"GET", "HEAD", "POST", "PUT", "OPTIONS"}
					}
					for _, m := range methods {
						var hdr []string
						if cr.hdr != "" {
							hdr = append(hdr, cr.hdr)
						}
						if ae != "" {
							hdr = append(hdr, "Accept-Encoding: "+ae)
						}
						if m == "POST" || m == "PUT" {
							hdr = append(hdr, "Content-Length: 0")
						}
						raw := kit.Get(m, tgt, "a.test:8080", hdr...)
						req, err := kit.Req(raw)
						if err != nil {
							local["request-rejected-by-net/http"]++
							continue
						}
						rec, pv, _ := kit.ServeReq(srv, req)
						rep.Eval(1)
						if pv != nil {
							rep.Violation("C03/panic", fmt.Sprintf("panic: %v", pv), c03case{Casketfile: cf, Request: raw})
							continue
						}
						text := rec.Body.String()
						if strings.Contains(strings.Join(rec.Snap.Values("Content-Encoding"), ","), "gzip") {
							if dec, err := kit.Gunzip(rec.Body.Bytes()); err == nil {
								text = string(dec)
							}
						}
						var disclosed, served []string
						collect := func(s string) {
							for res, tok := range tokens {
								if strings.Contains(s, tok) && j.pr.inScope(res) {
									served = append(served, res)
									if !j.pr.authorized(res, cr.user, cr.pw) {
										disclosed = append(disclosed, res)
									}
								}
							}
							for _, mm := range backendTok.FindAllStringSubmatch(s, -1) {
								if j.pr.inScope(mm[1]) {
									served = append(served, "backend:"+mm[1])
									if !j.pr.authorized(mm[1], cr.user, cr.pw) {
										disclosed = append(disclosed, "backend:"+mm[1])
									}
								}
							}
						}
						archive := false
						if members, ok := kit.Unarchive([]byte(text)); ok {
							archive = true
							for _, c := range members {
								collect(c)
								if dec, err := kit.Gunzip([]byte(c)); err == nil {
									collect(string(dec))
								}
							}
						} else {
							collect(text)
						}
						sort.Strings(disclosed)
						fullyValid := j.pr.authorized(req.URL.Path, cr.user, cr.pw) && len(disclosed) == 0 && (len(j.pr.more) == 0 || cr.name == "valid-second-rule" || !strings.Contains(tgt, "archive"))
						if cr.name == "valid-second-rule" && len(j.pr.more) == 0 {
							continue
						}
						if !fullyValid {
							if len(disclosed) > 0 && m != "OPTIONS" {
								how := "direct"
								switch {
								case archive:
									how = "archive-of-ancestor"
								case strings.HasPrefix(disclosed[0], "backend:"):
									how = "backend-reply"
								case !j.pr.inScope(req.URL.Path):
									how = "via-unprotected-path"
								}
								sig := "C03/disclosure/" + how + "/" + j.pr.name + "/" + mechanism(how, raw)
								if archive {
									kind := "basicauth"
									if j.pr.internal {
										kind = "internal"
									}
									sig = "C03/disclosure/" + how + "/" + kind + "/" + mechanism(how, raw)
								}
								rep.Violation(sig, fmt.Sprintf("%s %s with credentials=%s returned content of %v", m, tgt, cr.name, disclosed), c03case{cf, raw, rec.Status, disclosed, ""})
							}
							switch {
							case rec.Status == 401:
								local["challenged-401"]++
							case j.pr.internal && rec.Status == 404:
								local["internal-404"]++
							case len(disclosed) > 0:
								local["OPTIONS-pass-through"]++
							default:
								local[fmt.Sprintf("public-%dxx", rec.Status/100)]++
							}
						} else {
							// valid credentials: same as the site without the protection line
							r2, _ := kit.Req(raw)
							rec2, _, _ := kit.ServeReq(plain.Server(""), r2)
							b1, b2 := rec.Body.String(), rec2.Body.String()
							if archive {
								// archive bytes carry timestamps; compare member sets
								m1, _ := kit.Unarchive(rec.Body.Bytes())
								m2, _ := kit.Unarchive(rec2.Body.Bytes())
								b1, b2 = fmt.Sprint(len(m1)), fmt.Sprint(len(m2))
							}
							if rec.Status != rec2.Status || b1 != b2 {
								rep.Violation("C03/valid-credentials-not-served-normally/"+j.pr.name, fmt.Sprintf("%s %s: status %d vs %d without protection, bodies equal=%v", m, tgt, rec.Status, rec2.Status, b1 == b2), c03case{cf, raw, rec.Status, nil, "unprotected twin: " + fmt.Sprint(rec2.Status)})
							}
							if len(served) > 0 {
								local["served-with-valid-credentials"]++
							} else {
								local["valid-credentials-other"]++
							}
						}
					}
				}
			}
		}
		rep.ClassN(local)
		if ji == 20 {
			rep.Sample(map[string]interface{}{"casketfile": cf, "targets": targets[:20]})
		}
		return true
	})
	htpasswdSites(rep, base, auth)
	htpasswdEntries(rep, base, auth)
	replacedInternalDirectory(rep, base)
	rep.Finish()
}

// htpasswdSites: password files are per site. Two sites with different roots name their password file by the
// same root-relative name; each must accept exactly its own file's password, whether the sites are loaded
// together or one configuration after the other in the same process, in either order.
func htpasswdSites(rep *kit.Report, base string, auth func(u, p string) string) {
	sha := func(pw string) string {
		h := sha1.Sum([]byte(pw))
		return "{SHA}" + base64.StdEncoding.EncodeToString(h[:])
	}
	type site struct{ host, root, pw, tok string }
	var sites []site
	for _, n := range []string{"a", "b"} {
		st := site{host: n + ".test:8080", root: filepath.Join(base, "hp-"+n), pw: "pw-of-" + n}
		st.tok = kit.Token("hp-" + n)
		kit.WriteFile(st.root, "secret/s.txt", st.tok)
		kit.WriteFile(st.root, "pw", "u:"+sha(st.pw)+"\n")
		// (the two files have the same name relative to their roots, the same size and the same modification time, as files
		// laid down by one deployment do)
		stamp := time.Date(2024, 1, 2, 3, 4, 5, 0, time.UTC)
		os.Chtimes(filepath.Join(st.root, "pw"), stamp, stamp)
		sites = append(sites, st)
	}
	block := func(st site, abs bool) string {
		name := "pw"
		if abs {
			name = filepath.Join(st.root, "pw")
		}
		return fmt.Sprintf("%s {\n\troot %s\n\tbasicauth /secret u htpasswd=%s\n}\n", st.host, st.root, name)
	}
	probe := func(cf string, l *kit.Loaded, present []site) {
		for _, st := range present {
			for _, cr := range []struct{ name, hdr string }{{"none", ""}, {"own-password", auth("u", st.pw)}, {"password-of-site-a", auth("u", sites[0].pw)}, {"password-of-site-b", auth("u", sites[1].pw)}} {
				var hdr []string
				if cr.hdr != "" {
					hdr = append(hdr, cr.hdr)
				}
				raw := kit.Get("GET", "/secret/s.txt", st.host, hdr...)
				rec, pv, _ := kit.Serve(l.Server(""), raw)
				rep.Eval(1)
				valid := cr.hdr == auth("u", st.pw)
				got := strings.Contains(rec.Body.String(), st.tok)
				switch {
				case pv != nil:
					rep.Violation("C03/panic", fmt.Sprint(pv), c03case{cf, raw, 0, nil, ""})
				case !valid && got:
					rep.Violation("C03/disclosure/htpasswd-of-another-site-accepted", fmt.Sprintf("%s served its protected file to credentials=%s", st.host, cr.name), c03case{cf, raw, rec.Status, []string{"/secret/s.txt"}, "two sites name their password file `pw` relative to different roots"})
				case valid && !(rec.Status == 200 && got):
					rep.Violation("C03/valid-credentials-refused/htpasswd-per-site", fmt.Sprintf("%s answered %d to its own valid password", st.host, rec.Status), c03case{cf, raw, rec.Status, nil, "two sites name their password file `pw` relative to different roots"})
				}
				rep.Class("htpasswd-two-sites/" + map[bool]string{true: "served-with-valid-credentials", false: "challenged-401"}[valid])
			}
		}
	}
	for _, abs := range []bool{false} { // (the name is always taken relative to the site root)
		// together
		for _, order := range [][]int{{0, 1}, {1, 0}} {
			cf := block(sites[order[0]], abs) + block(sites[order[1]], abs)
			l, err := kit.Load(cf, filepath.Join(base, "Casketfile-hp"))
			if err != nil {
				rep.Broken("htpasswd sites: %v\n%s", err, cf)
			}
			probe(cf, l, sites)
			l.Close()
		}
		// one configuration after the other, same process
		for _, order := range [][]int{{0, 1}, {1, 0}, {0, 1, 0}} {
			desc := ""
			for _, i := range order {
				cf := block(sites[i], abs)
				desc += cf
				l, err := kit.Load(cf, filepath.Join(base, "Casketfile-hp"))
				if err != nil {
					rep.Broken("htpasswd sites: %v\n%s", err, cf)
				}
				probe("(loaded one after the other) "+desc, l, []site{sites[i]})
				l.Close()
			}
		}
	}
}

// htpasswdEntries: (1) a password file with an entry the server cannot verify (bcrypt) is refused, or at least the text
// of the hash is not a password; (2) a password file replaced by one of the same size with an older modification time
// (restored from a backup, moved into place) is read again at the next load: the old password is revoked.
func htpasswdEntries(rep *kit.Report, base string, auth func(u, p string) string) {
	root := filepath.Join(base, "hp-entries")
	tok := kit.Token("hp-entries")
	kit.WriteFile(root, "secret/s.txt", tok)
	sha := func(pw string) string {
		h := sha1.Sum([]byte(pw))
		return "{SHA}" + base64.StdEncoding.EncodeToString(h[:])
	}
	served := func(l *kit.Loaded, hdr string) bool {
		rec, _, _ := kit.Serve(l.Server(""), kit.Get("GET", "/secret/s.txt", "a.test:8080", hdr))
		rep.Eval(1)
		return strings.Contains(rec.Body.String(), tok)
	}
	cf := fmt.Sprintf("a.test:8080 {\n\troot %s\n\tbasicauth /secret bob htpasswd=pw\n}\n", root)
	// (1)
	for _, hash := range []string{"$2y$05$abcdefghijklmnopqrstuuJ6GZ2Wwv6U2ZyWmXkqMrQWuZ9e7RW6a", "$2a$05$abcdefghijklmnopqrstuuJ6GZ2Wwv6U2ZyWmXkqMrQWuZ9e7RW6a"} {
		kit.WriteFile(root, "pw", "bob:"+hash+"\n")
		os.Chtimes(filepath.Join(root, "pw"), time.Now(), time.Now().Add(time.Duration(len(hash))*time.Hour))
		l, err := kit.Load(cf, filepath.Join(base, "Casketfile-hpe"))
		if err != nil {
			rep.Class("htpasswd-entries/unverifiable-hash-refused")
			continue
		}
		if served(l, auth("bob", hash)) {
			sig := "C03/disclosure/text-of-an-unverifiable-hash-accepted-as-password"
			if strings.HasPrefix(hash, "$2a$") {
				sig += "/2a" // (the format table of the vendored htpasswd module rejects only $2y$: see BASELINE-REMARKS.md)
			}
			rep.Violation(sig, "an htpasswd entry whose hash the server cannot verify was accepted, with the text of the hash as the password", c03case{cf, "GET /secret/s.txt with user bob and the hash text as password", 200, []string{"/secret/s.txt"}, "entry " + hash[:4] + "..."})
		}
		l.Close()
		rep.Class("htpasswd-entries/unverifiable-hash-accepted")
	}
	// (2)
	pwFile := filepath.Join(root, "pw")
	kit.WriteFile(root, "pw", "bob:"+sha("old-pass")+"\n")
	t0 := time.Now().Add(-time.Hour)
	os.Chtimes(pwFile, t0, t0)
	l, err := kit.Load(cf, filepath.Join(base, "Casketfile-hpe"))
	if err != nil {
		rep.Broken("htpasswd entries: %v", err)
	}
	if !served(l, auth("bob", "old-pass")) {
		rep.Broken("htpasswd entries: the original password is not accepted")
	}
	l.Close()
	kit.WriteFile(root, "pw", "bob:"+sha("new-pass")+"\n") // same size
	t1 := t0.Add(-time.Hour)                               // an older time stamp, as after restoring a backup
	os.Chtimes(pwFile, t1, t1)
	l, err = kit.Load(cf, filepath.Join(base, "Casketfile-hpe"))
	if err != nil {
		rep.Broken("htpasswd entries: reload: %v", err)
	}
	if served(l, auth("bob", "old-pass")) {
		rep.Violation("C03/disclosure/revoked-password-still-accepted-after-reload", "the password file was replaced (same size, older modification time) and the configuration loaded again: the old password still opens the protected path", c03case{cf, "GET /secret/s.txt with the replaced password", 200, []string{"/secret/s.txt"}, ""})
	}
	if !served(l, auth("bob", "new-pass")) {
		rep.Violation("C03/valid-credentials-refused/after-password-file-replaced", "the new password of the replaced file is refused after the reload", c03case{cf, "GET /secret/s.txt with the new password", 401, nil, ""})
	}
	l.Close()
	rep.Class("htpasswd-entries/file-replaced-between-loads")
}

// replacedInternalDirectory: an internal directory is replaced by a new one of the same name while the site runs (a deployment
// that renames directories into place). Listings and archives of its parent keep leaving it out, before and after.
func replacedInternalDirectory(rep *kit.Report, base string) {
	root := filepath.Join(base, "vault-site")
	tok1, tok2 := kit.Token("vault-1"), kit.Token("vault-2")
	kit.WriteFile(root, "vault/keys.txt", tok1)
	kit.WriteFile(root, "pub/p.txt", "public")
	cf := fmt.Sprintf("a.test:8080 {\n\troot %s\n\tinternal /vault\n\tbrowse / {\n\t\tservearchive zip\n\t}\n}\n", root)
	l, err := kit.Load(cf, filepath.Join(base, "Casketfile-vault"))
	if err != nil {
		rep.Broken("replaced internal directory: %v", err)
	}
	defer l.Close()
	look := func(when string, toks ...string) {
		for _, tgt := range []string{"/?archive=zip", "/", "/vault/keys.txt", "/vault/", "/vault/?archive=zip"} {
			for _, accept := range []string{"", "Accept: application/json"} {
				var hdr []string
				if accept != "" {
					hdr = append(hdr, accept)
				}
				raw := kit.Get("GET", tgt, "a.test:8080", hdr...)
				rec, pv, _ := kit.Serve(l.Server(""), raw)
				rep.Eval(1)
				if pv != nil {
					rep.Violation("C03/panic", fmt.Sprint(pv), c03case{cf, raw, 0, nil, ""})
					continue
				}
				text := rec.Body.String()
				if m, ok := kit.Unarchive(rec.Body.Bytes()); ok {
					text = ""
					for name, content := range m {
						text += name + "\n" + content + "\n"
					}
				}
				for _, tok := range toks {
					if strings.Contains(text, tok) || (strings.Contains(tgt, "archive") && strings.Contains(text, "vault/keys.txt")) {
						rep.Violation("C03/disclosure/internal-directory-replaced-while-running", fmt.Sprintf("%s: GET %s returned content (or the name) of a file under the internal directory", when, tgt), c03case{cf, raw, rec.Status, []string{"/vault/keys.txt"}, when})
						break
					}
				}
			}
		}
		rep.Class("internal-directory/" + when)
	}
	look("before the directory is replaced", tok1)
	os.Rename(filepath.Join(root, "vault"), filepath.Join(base, "vault-old"))
	kit.WriteFile(root, "vault/keys.txt", tok2)
	look("after the directory was replaced by a new one", tok1, tok2)
}
