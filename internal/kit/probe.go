package kit

import (
	"bytes"
	"errors"
	"fmt"
	"io"
	"net/http"
	"strconv"
	"strings"
	"sync"

	"github.com/tmpim/casket"
	"github.com/tmpim/casket/caskethttp/httpserver"
)

var probeOnce sync.Once

// RegisterProbe registers the harness directive `verif_probe` (through the
// public RegisterDevDirective/RegisterPlugin API) as the innermost handler of
// a site. Its behaviour for a request is scripted by the X-Probe header, a
// ';'-separated list of operations executed in order:
//
//	readbody:<buf>     read the request body with a buffer of <buf> bytes until EOF/error,
//	                   and (unless something was already written) answer 200 with
//	                   "READ n=<n> err=<err>\n<bytes>"
//	hdr:<k>=<v>        set a response header
//	del:<k>            delete a response header
//	status:<code>      WriteHeader(code)
//	write:<n>x<c>      write n bytes of character c ("write:tok" writes the literal)
//	wstr:<n>x<c>       the same bytes through io.WriteString (a writer's own WriteString method, if it has one)
//	copy:<n>x<c>       the same bytes through io.Copy from a plain reader (a writer's own ReadFrom method, if it has one)
//	flush              Flush
//	panic              panic("probe panic"); panic:abort panics with http.ErrAbortHandler
//	ret:<code>[:err]   return (code, error?) immediately
//
// Without a ret operation the handler returns (0, nil). Requests without the
// header fall through to the next handler (the static file server).
func RegisterProbe() {
	probeOnce.Do(func() {
		httpserver.RegisterDevDirective("verif_probe", "")
		casket.RegisterPlugin("verif_probe", casket.Plugin{ServerType: "http", Action: func(c *casket.Controller) error {
			for c.Next() {
				for c.NextArg() {
				}
			}
			httpserver.GetConfig(c).AddMiddleware(func(next httpserver.Handler) httpserver.Handler {
				return probe{next}
			})
			return nil
		}})
	})
}

type probe struct{ next httpserver.Handler }

// plainReader hides every method but Read (no WriteTo), so that io.Copy uses the destination's ReadFrom.
type plainReader struct{ r io.Reader }

func (p plainReader) Read(b []byte) (int, error) { return p.r.Read(b) }

// ProbePayload returns the bytes written by "write:<n>x<c>".
func ProbePayload(spec string) []byte {
	if i := strings.IndexByte(spec, 'x'); i > 0 {
		if n, err := strconv.Atoi(spec[:i]); err == nil && i+1 < len(spec) {
			// vary the bytes so that compression cannot make every payload trivially tiny
			b := make([]byte, n)
			c := spec[i+1]
			for j := range b {
				if j%7 == 3 {
					b[j] = 'a' + byte(j%23)
				} else {
					b[j] = c
				}
			}
			return b
		}
	}
	return []byte(spec)
}

func (p probe) ServeHTTP(w http.ResponseWriter, r *http.Request) (int, error) {
	script := r.Header.Get("X-Probe")
	if script == "" {
		return p.next.ServeHTTP(w, r)
	}
	wrote := false
	var readReport []byte
	for _, op := range strings.Split(script, ";") {
		op = strings.TrimSpace(op)
		arg := ""
		if i := strings.IndexByte(op, ':'); i >= 0 {
			op, arg = op[:i], op[i+1:]
		}
		if IOPoint != nil {
			IOPoint()
		}
		switch op {
		case "readbody":
			n, _ := strconv.Atoi(arg)
			if n <= 0 {
				n = 512
			}
			buf := make([]byte, n)
			var data []byte
			var rerr error
			for {
				k, err := r.Body.Read(buf)
				data = append(data, buf[:k]...)
				if err != nil {
					if err != io.EOF {
						rerr = err
					}
					break
				}
			}
			// a second read after the end must keep reporting the same condition
			k2, err2 := r.Body.Read(buf)
			readReport = []byte(fmt.Sprintf("READ n=%d err=%v again=%d,%v\n", len(data), rerr, k2, err2))
			readReport = append(readReport, data...)
		case "hdr":
			if i := strings.IndexByte(arg, '='); i > 0 {
				w.Header().Set(arg[:i], arg[i+1:])
			}
		case "addhdr":
			if i := strings.IndexByte(arg, '='); i > 0 {
				w.Header().Add(arg[:i], arg[i+1:])
			}
		case "del":
			w.Header().Del(arg)
		case "status":
			c, _ := strconv.Atoi(arg)
			w.WriteHeader(c)
			wrote = true
		case "write":
			w.Write(ProbePayload(arg))
			wrote = true
		case "wstr":
			io.WriteString(w, string(ProbePayload(arg)))
			wrote = true
		case "copy":
			io.Copy(w, plainReader{bytes.NewReader(ProbePayload(arg))})
			wrote = true
		case "flush":
			if f, ok := w.(http.Flusher); ok {
				f.Flush()
			}
			wrote = true
		case "panic":
			if arg == "abort" {
				panic(http.ErrAbortHandler) // (the value net/http itself treats specially)
			}
			panic("probe panic")
		case "ret":
			parts := strings.SplitN(arg, ":", 2)
			c, _ := strconv.Atoi(parts[0])
			if len(parts) == 2 {
				return c, errors.New(parts[1])
			}
			return c, nil
		}
	}
	if readReport != nil && !wrote {
		w.Header().Set("Content-Type", "application/octet-stream")
		w.WriteHeader(200)
		w.Write(readReport)
	}
	return 0, nil
}
