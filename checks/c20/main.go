// C20 — access logs are complete and accurate; placeholders expand once.
package main

import (
	"context"
	"fmt"
	"net/http"
	"net/url"
	"os"
	"path/filepath"
	"strings"

	"github.com/tmpim/casket/caskethttp/httpserver"
	"verif/internal/kit"
)

type logFile struct {
	path   string
	scope  string
	except []string
	off    int64
}

func (lf *logFile) newLines() []string {
	f, err := os.Open(lf.path)
	if err != nil {
		return nil
	}
	defer f.Close()
	f.Seek(lf.off, 0)
	var buf []byte
	tmp := make([]byte, 4096)
	for {
		n, err := f.Read(tmp)
		buf = append(buf, tmp[:n]...)
		if err != nil {
			break
		}
	}
	lf.off += int64(len(buf))
	s := strings.TrimRight(string(buf), "\n")
	if s == "" {
		return nil
	}
	return strings.Split(s, "\n")
}

func matches(reqPath, base string) bool { return httpserver.Path(reqPath).Matches(base) }

type c20case struct {
	Casketfile string   `json:"casketfile"`
	Request    string   `json:"request"`
	Log        string   `json:"log_file"`
	Lines      []string `json:"new_lines"`
	Want       string   `json:"want"`
}

func logging(rep *kit.Report, root string) {
	type logCfg struct {
		name  string
		lines func(dir string) (string, []*logFile)
	}
	// (the last placeholder never has a value: the empty-value marker of the log directive, "-", stands for it)
	// ({user} is set by basicauth, further in, through the request's shared replacer)
	format := `"{status} {size} {method} {uri} {>X-Absent} {user}"`
	cfgs := []logCfg{
		{"one-log", func(d string) (string, []*logFile) {
			return fmt.Sprintf("\tlog / %s/one.log %s\n", d, format), []*logFile{{path: d + "/one.log", scope: "/"}}
		}},
		{"two-logs-same-scope", func(d string) (string, []*logFile) {
			return fmt.Sprintf("\tlog / %s/a.log %s\n\tlog / %s/b.log %s\n", d, format, d, format), []*logFile{{path: d + "/a.log", scope: "/"}, {path: d + "/b.log", scope: "/"}}
		}},
		{"disjoint-scopes", func(d string) (string, []*logFile) {
			return fmt.Sprintf("\tlog /a %s/a.log %s\n\tlog /b %s/b.log %s\n", d, format, d, format), []*logFile{{path: d + "/a.log", scope: "/a"}, {path: d + "/b.log", scope: "/b"}}
		}},
		{"except", func(d string) (string, []*logFile) {
			return fmt.Sprintf("\tlog / %s/e.log %s {\n\t\texcept /a/skip\n\t}\n", d, format), []*logFile{{path: d + "/e.log", scope: "/", except: []string{"/a/skip"}}}
		}},
		// an exception (and a scope) written as a directory, with the trailing slash: /a/skip and /a/skipper are not under it
		{"except-directory", func(d string) (string, []*logFile) {
			return fmt.Sprintf("\tlog /a %s/ed.log %s {\n\t\texcept /a/skip/\n\t}\n\tlog /b/ %s/sd.log %s\n", d, format, d, format), []*logFile{{path: d + "/ed.log", scope: "/a", except: []string{"/a/skip/"}}, {path: d + "/sd.log", scope: "/b/"}}
		}},
		{"except-on-first-of-two", func(d string) (string, []*logFile) {
			return fmt.Sprintf("\tlog / %s/e1.log %s {\n\t\texcept /a/skip\n\t}\n\tlog / %s/e2.log %s\n", d, format, d, format), []*logFile{{path: d + "/e1.log", scope: "/", except: []string{"/a/skip"}}, {path: d + "/e2.log", scope: "/"}}
		}},
		{"same-scope-around-another", func(d string) (string, []*logFile) {
			return fmt.Sprintf("\tlog / %s/s1.log %s\n\tlog /zz %s/sz.log %s\n\tlog / %s/s2.log %s\n", d, format, d, format, d, format), []*logFile{{path: d + "/s1.log", scope: "/"}, {path: d + "/sz.log", scope: "/zz"}, {path: d + "/s2.log", scope: "/"}}
		}},
		{"nested-scopes", func(d string) (string, []*logFile) {
			return fmt.Sprintf("\tlog / %s/n1.log %s\n\tlog /a %s/n2.log %s\n", d, format, d, format), []*logFile{{path: d + "/n1.log", scope: "/"}, {path: d + "/n2.log", scope: "/a"}}
		}},
	}
	wrappers := []string{"gzip", "errors", "errors {\n\t\t404 " + filepath.Join(root, "404.html") + "\n\t}", "header / X-H v", "templates", "rewrite /rw /a/x", "rewrite /a/skip /b/moved", "status 418 /teapot", "internal /int", "basicauth /priv u p", "redir /old /new"}
	var subsets [][]int
	maxWrap := 2
	if rep.Thorough() {
		maxWrap = 3
	}
	kit.Subsets(len(wrappers), 0, maxWrap, func(idx []int) {
		seen := map[string]bool{}
		for _, i := range idx {
			n := strings.Fields(wrappers[i])[0]
			if seen[n] {
				return
			}
			seen[n] = true
		}
		subsets = append(subsets, idx)
	})
	big := "5000xt"
	scripts := []string{"ret:0", "ret:200", "ret:404", "ret:400", "ret:500:boom", "ret:503", "status:200;write:x;ret:0", "status:201;write:" + big + ";ret:0", "status:404;write:nf;ret:0", "status:200;write:x;write:y;flush;ret:0:boom", "status:204;ret:0", "panic", "status:200;write:x;panic", "",
		// the handler flushes before it has written anything (which commits 200), then reports an error or writes
		"flush;ret:500:boom", "flush;ret:404", "flush;write:x;ret:0",
		// part of a body was written, then the handler gives up with an error status (what a gateway does when its backend dies)
		"status:200;write:x;ret:502:boom",
		// the body handed over through the writer's optional methods (io.Copy from a plain reader, io.WriteString), which commit
		// 200 like a first Write; then an error status, or after an informational header
		"copy:50xc;ret:500:boom", "status:103;copy:22xc;ret:0", "wstr:x;ret:404", "copy:" + big + ";ret:0",
		// an informational header, then a flush (which sends the implicit 200), then the body
		"status:103;flush;write:x;ret:0"}
	paths := []string{"/a/x", "/a/skip/y", "/a/skip", "/a/skipper", "/b", "/b/z", "/c", "/rw", "/teapot", "/int/q", "/priv/p", "/old", "/A/X", "/a/../b/w", "/plain.txt", "/missing"}
	type job struct {
		lc  logCfg
		sub []int
	}
	var jobs []job
	for _, lc := range cfgs {
		for _, s := range subsets {
			jobs = append(jobs, job{lc, s})
		}
	}
	kit.Parallel(len(jobs), func(ji int) bool {
		if rep.Expired() {
			rep.Capped("deadline")
			return false
		}
		j := jobs[ji]
		dir := filepath.Join(root, fmt.Sprintf("logs%d", ji))
		os.MkdirAll(dir, 0o755)
		defer os.RemoveAll(dir)
		logLines, files := j.lc.lines(dir)
		var ws []string
		for _, i := range j.sub {
			ws = append(ws, "\t"+wrappers[i])
		}
		cf := fmt.Sprintf("a.test:8080 {\n\troot %s\n%s%s\n\tverif_probe\n}\n", root, logLines, strings.Join(ws, "\n"))
		l, err := kit.Load(cf, filepath.Join(root, "..", "Casketfile-c20"))
		if err != nil {
			rep.Broken("load: %v\n%s", err, cf)
		}
		defer l.Close()
		srv := l.Server("")
		local := map[string]int64{}
		for _, sc := range scripts {
			for _, p := range paths {
				for _, m := range []string{"GET", "POST"} {
					for _, ae := range []string{"", "gzip"} {
						var hdr []string
						if sc != "" {
							hdr = append(hdr, "X-Probe: "+sc)
						}
						if ae != "" {
							hdr = append(hdr, "Accept-Encoding: "+ae)
						}
						if m == "POST" {
							hdr = append(hdr, "Content-Length: 0")
						}
						authed := p == "/priv/p" && m == "POST"
						if authed {
							hdr = append(hdr, "Authorization: Basic dTpw") // u:p, valid for the `basicauth /priv u p` wrapper
						}
						raw := kit.Get(m, p+"?k=v", "a.test:8080", hdr...)
						req := kit.MustReq(raw)
						origPath := req.URL.Path // rewrites change the URL in place
						rec, pv, _ := kit.ServeReq(srv, req)
						rep.Eval(1)
						if pv != nil {
							rep.Violation("C20/panic-escaped", fmt.Sprint(pv), c20case{Casketfile: cf, Request: raw})
							continue
						}
						for fi, lf := range files {
							lines := lf.newLines()
							inScope := matches(origPath, lf.scope)
							excepted := false
							for _, e := range lf.except {
								if matches(origPath, e) {
									excepted = true
								}
							}
							want := 0
							if inScope && !excepted {
								want = 1
							}
							mods := "/" + j.lc.name
							if strings.Contains(sc, "panic") {
								mods = "/handler-panicked" // one class whatever the layout
							}
							if len(lines) != want {
								kind := "missing-log-line"
								if len(lines) > want {
									kind = "extra-log-line"
								}
								sig := "C20/" + kind + mods + fmt.Sprintf("/log%d", fi+1)
								if mods == "/handler-panicked" {
									sig = "C20/" + kind + mods
								}
								rep.Violation(sig, fmt.Sprintf("%s %s: %d new lines in %s, want %d", m, p, len(lines), filepath.Base(lf.path), want), c20case{cf, raw, filepath.Base(lf.path), lines, fmt.Sprint(want, " line(s)")})
								continue
							}
							if want == 1 {
								wantLine := fmt.Sprintf("%d %d %s %s -", rec.Status, rec.Body.Len(), m, p+"?k=v")
								// the last field: the authenticated user where basicauth accepted the request; not judged elsewhere
								gotLine, userField := lines[0], ""
								if i := strings.LastIndex(gotLine, " "); i >= 0 {
									gotLine, userField = gotLine[:i], gotLine[i+1:]
								}
								if authed && strings.Contains(cf, "basicauth /priv u p") && rec.Status != 401 && userField != "u" {
									rep.Violation("C20/authenticated-user-not-logged", fmt.Sprintf("basicauth accepted user u for %s, the log line's {user} field is %q", p, userField), c20case{cf, raw, filepath.Base(lf.path), lines, wantLine + " u"})
								}
								if gotLine != wantLine {
									f := strings.Fields(gotLine)
									kind := "logged-status-wrong"
									if len(f) >= 2 && f[0] == fmt.Sprint(rec.Status) {
										kind = "logged-size-wrong"
										if len(f) >= 4 && f[1] == fmt.Sprint(rec.Body.Len()) {
											kind = "logged-request-wrong"
											if f[2] == m && f[3] == p+"?k=v" {
												kind = "empty-value-marker-wrong"
											}
										}
									}
									if strings.Contains(sc, "panic") {
										kind += "/handler-panicked"
									}
									rep.Violation("C20/"+kind, fmt.Sprintf("logged %q, client saw %q", gotLine, wantLine), c20case{cf, raw, filepath.Base(lf.path), lines, wantLine})
								}
								local[fmt.Sprintf("logged/%dxx", rec.Status/100)]++
							} else if excepted {
								local["excepted"]++
							} else {
								local["out-of-scope"]++
							}
						}
					}
				}
			}
		}
		rep.ClassN(local)
		if ji == 7 {
			rep.Sample(map[string]interface{}{"casketfile": cf, "requests": "14 inner behaviours x 16 paths x GET/POST x Accept-Encoding"})
		}
		return true
	})
}

// ---- placeholders ----

type atom struct {
	text string
	ref  func(r *http.Request) string
}

func placeholders(rep *kit.Report) {
	os.Setenv("VERIF_ENVV", "env{host}val")
	values := []string{"v", "{host}", "{>X}", "{", "}", "\\{", "", "{method}{uri}", "a b"}
	atoms := []atom{
		{"{method}", func(r *http.Request) string { return r.Method }},
		{"{host}", func(r *http.Request) string { return r.Host }},
		{"{hostonly}", func(r *http.Request) string { return "a.test" }},
		{"{path}", func(r *http.Request) string { return r.URL.Path }},
		{"{query}", func(r *http.Request) string { return r.URL.RawQuery }},
		{"{uri}", func(r *http.Request) string { return r.URL.RequestURI() }},
		{"{proto}", func(r *http.Request) string { return r.Proto }},
		{"{scheme}", func(r *http.Request) string { return "http" }},
		{"{port}", func(r *http.Request) string { return "41234" }}, // the client's port
		{"{>X}", func(r *http.Request) string { return strings.Join(r.Header["X"], ",") }},
		{"{>x}", func(r *http.Request) string { return strings.Join(r.Header["X"], ",") }},
		{"{~c}", func(r *http.Request) string {
			if c, err := r.Cookie("c"); err == nil {
				return c.Value
			}
			return "-"
		}},
		{"{?q}", func(r *http.Request) string { return r.URL.Query().Get("q") }},
		{"{$VERIF_ENVV}", func(r *http.Request) string { return "env{host}val" }},
		{"{unknown}", func(r *http.Request) string { return "-" }},
		{"{}", func(r *http.Request) string { return "-" }},
		{"\\{method\\}", func(r *http.Request) string { return "{method}" }},
		{"\\{", func(r *http.Request) string { return "{" }},
		{"plain ", func(r *http.Request) string { return "plain " }},
		{"", func(r *http.Request) string { return "" }},
	}
	type pcase struct {
		Format  string `json:"format"`
		Request string `json:"request"`
		Got     string `json:"got"`
		Want    string `json:"want"`
	}
	n := len(atoms)
	kit.Parallel(n*n, func(i int) bool {
		a1, a2 := atoms[i/n], atoms[i%n]
		local := map[string]int64{}
		for _, a3 := range atoms {
			format := a1.text + a2.text + a3.text
			for _, hv := range values {
				for _, qv := range values {
					raw := fmt.Sprintf("GET /p/%s?q=%s HTTP/1.1\r\nHost: a.test:8080\r\n", url.PathEscape(hv), url.QueryEscape(qv))
					if hv != "" {
						raw += "X: " + hv + "\r\n"
					}
					raw += "Cookie: c=" + qv + "\r\n\r\n"
					req, err := kit.Req(raw)
					if err != nil {
						continue
					}
					var got string
					var pv interface{}
					func() {
						defer func() { pv = recover() }()
						// the server stores the original URL in the request context before any handler runs
						rq := req.WithContext(context.WithValue(req.Context(), httpserver.OriginalURLCtxKey, *req.URL))
						got = httpserver.NewReplacer(rq, nil, "-").Replace(format)
					}()
					rep.Eval(1)
					if pv != nil {
						rep.Violation("C20/placeholder/panic", fmt.Sprintf("Replace panicked: %v", pv), pcase{format, raw, "", ""})
						continue
					}
					want := ""
					for _, a := range []atom{a1, a2, a3} {
						v := a.ref(req)
						if v == "" && (a.text == "{>X}" || a.text == "{>x}") {
							v = "-" // header absent
						}
						want += v
					}
					if got != want {
						kind := "wrong-expansion"
						if strings.Contains(want, "{") && !strings.Contains(got, "{") || len(got) > len(want)+3 {
							kind = "request-text-expanded-again"
						}
						rep.Violation("C20/placeholder/"+kind, fmt.Sprintf("format %q: got %q, want %q", format, got, want), pcase{format, raw, got, want})
					}
					if strings.Contains(want, "{") {
						local["placeholder/request-text-with-braces-kept-verbatim"]++
					} else {
						local["placeholder/plain"]++
					}
				}
			}
		}
		rep.ClassN(local)
		return true
	})
	rep.Sample(map[string]interface{}{"format": "{>X}\\{method\\}{?q}", "request": "GET /p/v?q=%7Bhost%7D with X: {method}{uri}", "expected": "{method}{uri}{method}{host}"})
}

// rotation: two sites share one rolling log file (named by absolute path, by a relative path, and by two
// spellings of the same path). After every request exactly one new line exists, counted over the log file and
// its rotated backups, and a request that completes after a rotation is found in the current file.
func rotation(rep *kit.Report, root string) {
	type rcase struct {
		Casketfile string `json:"casketfile"`
		Step       string `json:"step"`
		Problem    string `json:"problem"`
	}
	cwd, _ := os.Getwd()
	defer os.Chdir(cwd)
	for vi, names := range [][2]string{{"ABS/rot.log", "ABS/rot.log"}, {"rot.log", "rot.log"}, {"rot.log", "./sub/../rot.log"}, {"ABS/rot.log", "rot.log"}} {
		dir := filepath.Join(root, fmt.Sprintf("rot%d", vi))
		os.MkdirAll(filepath.Join(dir, "sub"), 0o755)
		os.Chdir(dir)
		for i := range names {
			names[i] = strings.Replace(names[i], "ABS", dir, 1)
		}
		cf := fmt.Sprintf("a.test:8080 {\n\tlog / %s \"{uri}\" {\n\t\trotate_size 1\n\t\trotate_keep 50\n\t}\n\tstatus 204 /\n}\nb.test:8080 {\n\tlog / %s \"{uri}\" {\n\t\trotate_size 1\n\t\trotate_keep 50\n\t}\n\tstatus 204 /\n}\n", names[0], names[1])
		l, err := kit.Load(cf, filepath.Join(dir, "Casketfile"))
		if err != nil {
			rep.Broken("rotation: load: %v\n%s", err, cf)
		}
		srv := l.Server("")
		countAll := func(tok string) (total, current int) {
			ents, _ := os.ReadDir(dir)
			for _, e := range ents {
				if !strings.HasPrefix(e.Name(), "rot") || e.IsDir() {
					continue
				}
				b, _ := os.ReadFile(filepath.Join(dir, e.Name()))
				n := strings.Count(string(b), tok)
				total += n
				if e.Name() == "rot.log" {
					current += n
				}
			}
			return
		}
		files := func() int {
			ents, _ := os.ReadDir(dir)
			n := 0
			for _, e := range ents {
				if strings.HasPrefix(e.Name(), "rot") && !e.IsDir() {
					n++
				}
			}
			return n
		}
		pad := strings.Repeat("p", 4000)
		sent := 0
		send := func(host, tok string) {
			kit.Serve(srv, kit.Get("GET", "/"+tok+"?"+pad, host))
			rep.Eval(1)
			sent++
		}
		// fill through site a until the file has been rotated twice, interleaving a request through site b after each rotation
		rotations, guard := 0, 0
		for rotations < 2 && guard < 2000 {
			guard++
			before := files()
			tokA := fmt.Sprintf("A-%d-%d-", vi, guard)
			send("a.test:8080", tokA)
			if tot, _ := countAll(tokA); tot != 1 {
				rep.Violation("C20/rotation/line-count", fmt.Sprintf("request %s through site a has %d lines over the log file and its backups", tokA, tot), rcase{cf, tokA, "want exactly one"})
			}
			if files() > before {
				rotations++
				tokB := fmt.Sprintf("B-%d-%d-", vi, guard)
				send("b.test:8080", tokB)
				tot, cur := countAll(tokB)
				if tot != 1 {
					rep.Violation("C20/rotation/line-count", fmt.Sprintf("request %s through site b after a rotation has %d lines over the log file and its backups", tokB, tot), rcase{cf, tokB, "want exactly one"})
				} else if cur != 1 {
					rep.Violation("C20/rotation/line-written-to-a-rotated-file", fmt.Sprintf("request %s through site b completed after the rotation but its line is not in the current log file", tokB), rcase{cf, tokB, "the other site still writes to the file that was rotated away"})
				}
				rep.Class("rotation/line-after-rotation-through-the-other-site")
			}
		}
		if rotations < 2 {
			rep.Broken("rotation: the log was not rotated after %d requests of 4 KB", guard)
		}
		rep.Class("rotation/lines-while-filling")
		l.Close()
	}
}

// reloads: access logs written to a file, to the standard streams and to the default stream, over sequences of
// requests, reloads (the new instance is started, then the old one is shut down, as Instance.Restart does) and failed
// reloads (the new configuration is refused; whatever it had set up is shut down, the old instance stays). Every
// request served by the instance that is current is logged exactly once at the destination, whatever preceded it.
// The process's stdout and stderr are regular files for the duration of the phase.
func reloads(rep *kit.Report, root string) {
	type rcase struct {
		Casketfile string   `json:"casketfile"`
		Sequence   []string `json:"sequence"`
		Step       int      `json:"step"`
		Lines      int      `json:"lines"`
	}
	dir := filepath.Join(root, "rl")
	os.MkdirAll(dir, 0o755)
	outF, _ := os.Create(filepath.Join(dir, "stdout"))
	errF, _ := os.Create(filepath.Join(dir, "stderr"))
	realOut, realErr := os.Stdout, os.Stderr
	os.Stdout, os.Stderr = outF, errF
	var broken string
	type pending struct {
		sig, what string
		c         rcase
	}
	var vios []pending
	layouts := []struct{ name, directives, dest string }{
		{"file", "log / " + filepath.Join(dir, "f.log") + " \"{uri}\"", filepath.Join(dir, "f.log")},
		{"file-without-rotation", "log / " + filepath.Join(dir, "g.log") + " \"{uri}\" {\n\t\trotate_disable\n\t}", filepath.Join(dir, "g.log")},
		{"two-logs-one-file-without-rotation", "log /a " + filepath.Join(dir, "h.log") + " \"{uri}\" {\n\t\trotate_disable\n\t}\n\tlog /b " + filepath.Join(dir, "h.log") + " \"{uri}\" {\n\t\trotate_disable\n\t}", filepath.Join(dir, "h.log")},
		{"stdout", "log / stdout \"{uri}\"", outF.Name()},
		{"stderr", "log / stderr \"{uri}\"", errF.Name()},
		{"default-stream", "log / \"\" \"{uri}\"", errF.Name()},
		{"stderr+errors", "errors\n\tlog / stderr \"{uri}\"", errF.Name()},
		{"stdout+errors-stdout", "errors stdout\n\tlog / stdout \"{uri}\"", outF.Name()},
		{"stderr+errors-visible", "errors visible\n\tlog / stderr \"{uri}\"", errF.Name()},
		{"two-logs-one-stream", "log /a stderr \"{uri}\"\n\tlog /b stderr \"{uri}\"", errF.Name()},
	}
	ops := []string{"request", "reload", "failed-reload-setup", "failed-reload-startup"}
	depth := 4
	if rep.Thorough() {
		depth = 5
	}
	n := 0
	for li, lay := range layouts {
		cf := "a.test:8080 {\n\t" + lay.directives + "\n\tstatus 204 /\n}\n"
		// refused while its directives are set up (after the log directive's turn) / refused by a start-up callback
		// that runs after the log's own (a second log whose file cannot be created: its directory is a regular file)
		bad := map[string]string{
			"failed-reload-setup":   "a.test:8080 {\n\t" + lay.directives + "\n\tstatus 204 /\n\tbasicauth onlyone\n}\n",
			"failed-reload-startup": "a.test:8080 {\n\t" + lay.directives + "\n\tlog /zz " + filepath.Join(outF.Name(), "x.log") + "\n\tstatus 204 /\n}\n",
		}
		total := 1
		for i := 0; i < depth; i++ {
			total *= len(ops)
		}
		for code := 0; code < total && broken == ""; code++ {
			seq := make([]string, depth+1)
			c := code
			for i := 0; i < depth; i++ {
				seq[i] = ops[c%len(ops)]
				c /= len(ops)
			}
			seq[depth] = "request"
			cur, err := kit.Load(cf, filepath.Join(dir, "Casketfile"))
			if err != nil {
				broken = fmt.Sprintf("reloads: load: %v\n%s", err, cf)
				break
			}
			var toks []string
			for step, op := range seq {
				switch op {
				case "request":
					n++
					tok := fmt.Sprintf("/a/R-%d-%d-%d-%d-", li, code, step, n)
					toks = append(toks, tok)
					kit.Serve(cur.Server(""), kit.Get("GET", tok, "a.test:8080"))
					rep.Eval(1)
					b, _ := os.ReadFile(lay.dest)
					if k := strings.Count(string(b), tok); k != 1 {
						vios = append(vios, pending{"C20/reloads/line-count/" + lay.name, fmt.Sprintf("layout %s, sequence %v: the request of step %d has %d lines at the destination, want exactly one", lay.name, seq, step, k), rcase{cf, seq, step, k}})
					}
				case "reload":
					next, err := kit.Load(cf, filepath.Join(dir, "Casketfile"))
					if err != nil {
						broken = fmt.Sprintf("reloads: reload: %v\n%s", err, cf)
						break
					}
					cur.Close()
					cur = next
				default:
					if l2, err := kit.Load(bad[op], filepath.Join(dir, "Casketfile")); err == nil {
						l2.Close()
						broken = "reloads: the configuration meant to be refused was accepted\n" + bad[op]
					}
				}
				if broken != "" {
					break
				}
			}
			// every line of the sequence is still there at its end (a later writer has not written over it)
			if b, err := os.ReadFile(lay.dest); err == nil {
				for ti, tok := range toks {
					if k := strings.Count(string(b), tok); k != 1 {
						vios = append(vios, pending{"C20/reloads/line-lost-later/" + lay.name, fmt.Sprintf("layout %s, sequence %v: at the end of the sequence request number %d has %d lines at the destination, want exactly one", lay.name, seq, ti+1, k), rcase{cf, seq, -1, k}})
					}
				}
			}
			cur.Close()
		}
		rep.Class("reloads/" + lay.name)
	}
	os.Stdout, os.Stderr = realOut, realErr
	outF.Close()
	errF.Close()
	if broken != "" {
		rep.Broken("%s", broken)
	}
	for _, v := range vios {
		rep.Violation(v.sig, v.what, v.c)
	}
}

// caseSensitive: in case-sensitive path mode (CASE_SENSITIVE_PATH=1) a scope or an exception written /status does not
// cover /Status: such a request is logged exactly once, and the excepted spelling is not.
func caseSensitive(rep *kit.Report, root string) {
	httpserver.CaseSensitivePath = true
	defer func() { httpserver.CaseSensitivePath = false }()
	dir := filepath.Join(root, "cs")
	os.MkdirAll(dir, 0o755)
	lf := filepath.Join(dir, "cs.log")
	cf := fmt.Sprintf("a.test:8080 {\n\tlog / %s \"{uri}\" {\n\t\texcept /status\n\t}\n\tstatus 204 /\n}\n", lf)
	l, err := kit.Load(cf, filepath.Join(dir, "Casketfile"))
	if err != nil {
		rep.Broken("case-sensitive: load: %v", err)
	}
	defer l.Close()
	for _, tc := range []struct {
		path string
		want int
	}{{"/Status", 1}, {"/status", 0}, {"/status/live", 0}, {"/STATUS/x", 1}, {"/other", 1}} {
		kit.Serve(l.Server(""), kit.Get("GET", tc.path+"?t="+tc.path[1:2], "a.test:8080"))
		rep.Eval(1)
		b, _ := os.ReadFile(lf)
		if n := strings.Count(string(b), tc.path+"?t="); n != tc.want {
			rep.Violation("C20/log-lines/case-sensitive-paths", fmt.Sprintf("case-sensitive mode, `except /status`: GET %s produced %d log lines, want %d", tc.path, n, tc.want), map[string]string{"casketfile": cf, "request": tc.path})
		}
	}
	rep.Class("case-sensitive-paths")
}

func main() {
	rep := kit.NewReport("C20", "exploration",
		"logging: 8 log layouts (one, two same-scope, two same-scope around another scope, disjoint scopes, except, except and scope written as directories, except on the first of two, nested scopes) x every subset of size <=2 (thorough 3) of 11 wrapping directives x 23 inner behaviours x 13 paths x GET/POST x Accept-Encoding, new lines of every log file counted after every request and {status}/{size} compared with what the strict writer saw; rotation: two sites sharing one rolling file under 4 spellings of its name, every line counted over the file and its backups, lines after a rotation looked for in the current file; placeholders: every format of 3 atoms over 20 atoms (vocabulary, header/cookie/query/env lookups, unknown, escaped braces, text) x 9x9 request-supplied values containing placeholder syntax, against a single-pass reference; reloads: 10 layouts writing to a file (rolling or not, one or two logs on it), stdout, stderr or the default stream (alone, two logs on one stream, next to an errors log on the same stream) x every sequence of 4 (thorough 5) steps over {request, reload, reload refused at set-up, reload refused at start-up} followed by a request, every request's line counted at the destination when it is made and again at the end of the sequence; distinct_nontrivial = outcome classes")
	kit.Init()
	kit.RegisterProbe()
	kit.Log.Off.Store(true)
	root := kit.TempDir("c20")
	defer os.RemoveAll(root)
	kit.WriteFile(root, "404.html", "CUSTOM-404")
	kit.WriteFile(root, "plain.txt", "PLAIN")
	overlapPhase(rep, root)
	logging(rep, root)
	placeholders(rep)
	rotation(rep, root)
	caseSensitive(rep, root)
	reloads(rep, root)
	os.RemoveAll(root)
	rep.Finish()
}
