// C12 — each request gets exactly one well-formed response; panics are contained.
package main

import (
	"fmt"
	"net/http"
	"os"
	"path/filepath"
	"strings"

	"verif/internal/kit"
)

type behaviour struct {
	name   string
	script string
	wrote  bool   // the handler commits a response itself
	status int    // committed status (wrote) or returned status
	body   string // committed body
	retErr bool
	panics string // "", "before", "after"
}

type c12case struct {
	Casketfile string `json:"casketfile"`
	Request    string `json:"request"`
	Behaviour  string `json:"inner_handler"`
	Got        string `json:"got"`
	Want       string `json:"want"`
}

func main() {
	rep := kit.NewReport("C12", "exploration",
		"every subset of size <=3 (thorough 4) of 20 wrapping directive lines (at most one line per directive) around a scripted innermost handler x ~80 inner behaviours (return any of 7 statuses with/without error and without writing; write any of 4 statuses x 7 bodies through Write, io.WriteString or io.Copy with optional flush then return (0, nil|err); flush first; Early Hints; internal redirect loops with and without a flush; a template failing at execution; panic before/after writing) x 4 paths x {no Accept-Encoding, gzip, an empty Host header}, followed by a plain request after every panic; every plain 200 also requested with 7 conditional and range headers (the answer may be 200, 206, 304, 412 or 416 but must be well formed for that status); strict response writer counts header commits; distinct_nontrivial = outcome classes")
	kit.Init()
	kit.RegisterProbe()
	kit.Log.Off.Store(true)
	root := kit.TempDir("c12")
	defer os.RemoveAll(root)
	kit.WriteFile(root, "404.html", "CUSTOM-404-PAGE")
	kit.WriteFile(root, "generic.html", "GENERIC-ERROR-PAGE")
	kit.WriteFile(root, "plain.txt", "PLAIN-FILE")
	// overlapping requests first (E2, deterministic); the sweep below serves many requests at once on the real pools
	overlapPhase(rep, root)
	if rep.ViolationCount() > 0 {
		rep.Capped("the sweep of single requests was skipped: overlapping requests already differ from the same requests served alone")
		rep.Finish()
		return
	}
	p404 := filepath.Join(root, "404.html")
	pgen := filepath.Join(root, "generic.html")
	menu := []string{
		"log / " + filepath.Join(root, "access.log"),
		"log / " + filepath.Join(root, "access2.log") + " \"{hostonly} {host} {port} {method} {uri} {status} {>User-Agent} {~c} {?q}\"", // (placeholders evaluated after the response)
		"gzip",
		"gzip {\n\t\tmin_length 1\n\t}",
		"header / X-H v",
		"header / -Server",
		"errors",
		"errors {\n\t\t404 " + p404 + "\n\t\t* " + pgen + "\n\t}",
		"errors visible",
		"errors {\n\t\t404 " + root + "\n\t}",   // (the error page is a directory)
		"errors {\n\t\t404 /proc/self/mem\n\t}", // (the error page opens, reading it fails)
		"templates",
		"mime .html text/html",
		"status 418 /teapot",
		"limits 1KB",
		"request_id",
		"rewrite /rw /x",
		"internal /int",
		"push",
		"markdown /",
	}
	maxSub, confMax := 3, 1
	if rep.Thorough() {
		maxSub, confMax = 4, 2
	}
	var subsets [][]int
	kit.Subsets(len(menu), 0, maxSub, func(idx []int) {
		seen := map[string]bool{}
		for _, i := range idx {
			n := strings.Fields(menu[i])[0]
			if seen[n] {
				return
			}
			seen[n] = true
		}
		subsets = append(subsets, idx)
	})
	big := string(kit.ProbePayload("5000xt"))
	var behaviours []behaviour
	for _, s := range []int{0, 200, 204, 301, 404, 500, 503} {
		behaviours = append(behaviours,
			behaviour{name: fmt.Sprintf("return(%d,nil)", s), script: fmt.Sprintf("ret:%d", s), status: s},
			behaviour{name: fmt.Sprintf("return(%d,err)", s), script: fmt.Sprintf("ret:%d:boom", s), status: s, retErr: true})
	}
	for _, w := range []int{200, 201, 404, 500} {
		for _, b := range []struct{ name, ops, body string }{
			{"empty", "", ""},
			{"x", "write:x", "x"},
			{"x-twice", "write:x;write:y", "xy"},
			{"5k", "write:5000xt", big},
			{"5k-flush-x", "write:5000xt;flush;write:x", big + "x"},
			// the same bytes through the writer's optional methods
			{"x-writestring", "wstr:x", "x"},
			{"5k-copy-x", "copy:5000xt;write:x", big + "x"},
		} {
			for _, e := range []bool{false, true} {
				sc := fmt.Sprintf("status:%d", w)
				if b.ops != "" {
					sc += ";" + b.ops
				}
				ret := "ret:0"
				if e {
					ret = "ret:0:boom"
				}
				behaviours = append(behaviours, behaviour{name: fmt.Sprintf("write(%d,%s)+return(0,err=%v)", w, b.name, e), script: sc + ";" + ret, wrote: true, status: w, body: b.body, retErr: e})
			}
		}
	}
	// the handler flushes before it has written anything (the implicit 200 goes out), then writes or reports an error
	behaviours = append(behaviours,
		behaviour{name: "flush-then-write(x)+return(0,nil)", script: "flush;write:x;ret:0", wrote: true, status: 200, body: "x"},
		behaviour{name: "flush-then-write(5k)+return(0,err)", script: "flush;write:5000xt;ret:0:boom", wrote: true, status: 200, body: big, retErr: true})
	// (a handler that flushes and then returns an error status breaks the handler contract itself: not in the alphabet)
	// an informational header (Early Hints) before the final status; a Content-Length set by a handler that then gives up
	behaviours = append(behaviours,
		behaviour{name: "early-hints-then-write(404,nf)", script: "status:103;status:404;write:nf;ret:0", wrote: true, status: 404, body: "nf"},
		behaviour{name: "content-length-set-then-return(404,nil)", script: "hdr:Content-Length=5;ret:404", status: 404},
		behaviour{name: "content-length-set-then-return(500,err)", script: "hdr:Content-Length=5;ret:500:boom", status: 500, retErr: true})
	// a response that asks `internal` for a redirect to a path that answers in the same way, for ever (with a Content-Length
	// on every discarded answer); without `internal` on the site it is an ordinary response
	accel := behaviour{name: "internal-redirect-loop(Content-Length set)", script: "hdr:X-Accel-Redirect=/x;hdr:Content-Length=5;status:200;write:hello;ret:0", wrote: true, status: 200, body: "hello"}
	behaviours = append(behaviours, accel,
		behaviour{name: accel.name + "+flush", script: "hdr:X-Accel-Redirect=/x;status:200;write:hello;flush;ret:0", wrote: true, status: 200, body: "hello"})
	// a response that is a template which parses but fails when executed (only meaningful behind templates)
	tplErr := `{{.Include "missing-file"}}`
	behaviours = append(behaviours,
		behaviour{name: "write(200,template-that-fails-at-execution,Content-Length set)", script: fmt.Sprintf("hdr:Content-Length=%d;status:200;write:%s;ret:0", len(tplErr), tplErr), wrote: true, status: 200, body: tplErr})
	// the body handed over through the writer's optional methods without any WriteHeader before
	behaviours = append(behaviours,
		behaviour{name: "copy(5k)-without-WriteHeader+return(0,nil)", script: "copy:5000xt;ret:0", wrote: true, status: 200, body: big},
		behaviour{name: "writestring(x)-without-WriteHeader+return(0,nil)", script: "wstr:x;ret:0", wrote: true, status: 200, body: "x"})
	behaviours = append(behaviours,
		behaviour{name: "panic-before-writing", script: "panic", panics: "before"},
		behaviour{name: "panic-after-writing", script: "status:200;write:x;panic", panics: "after", wrote: true, status: 200, body: "x"},
		// the panic value net/http uses to abort a handler quietly: inside casket it is a panic like any other
		behaviour{name: "panic(http.ErrAbortHandler)-before-writing", script: "panic:abort", panics: "before"})
	paths := []string{"/x", "/t.html", "/teapot", "/int/y"}
	rep.Set("sites", len(subsets))
	rep.Set("behaviours", len(behaviours))

	kit.Parallel(len(subsets), func(si int) bool {
		if rep.Expired() {
			rep.Capped("deadline")
			return false
		}
		sub := subsets[si]
		has := map[string]string{}
		var lines []string
		for _, i := range sub {
			lines = append(lines, "\t"+menu[i])
			has[strings.Fields(menu[i])[0]] = menu[i]
		}
		// (a catch-all site: it also answers requests that name no host at all)
		cf := fmt.Sprintf(":8080 {\n\troot %s\n%s\n\tverif_probe\n}\n", root, strings.Join(lines, "\n"))
		l, err := kit.Load(cf, filepath.Join(root, "..", "Casketfile-c12"))
		if err != nil {
			rep.Broken("load: %v\n%s", err, cf)
		}
		defer l.Close()
		srv := l.Server("")
		local := map[string]int64{}
		// conformance of the strict writer: for the smaller sites every request is also served by a genuine
		// net/http server on an in-memory connection and what the client reads is compared with the record
		var real *kit.RealServer
		if len(sub) <= confMax {
			real = kit.NewRealServer(srv)
			defer real.Close()
		}
		customPages := strings.Contains(has["errors"], "404.html") // (not the variant whose page is a directory: the default text is right there)
		visible := strings.Contains(has["errors"], "visible")
		for _, b := range behaviours {
			for _, p := range paths {
				for _, ae := range []string{"", "gzip", "no-host"} {
					host := "a.test:8080"
					if ae == "no-host" {
						ae, host = "", "" // (an empty Host header)
					}
					hdr := []string{"X-Probe: " + b.script}
					if p == "/t.html" && b.wrote {
						hdr[0] = "X-Probe: hdr:Content-Type=text/html;" + b.script
					}
					if ae != "" {
						hdr = append(hdr, "Accept-Encoding: "+ae)
					}
					raw := kit.Get("GET", p, host, hdr...)
					rec, pv, _ := kit.Serve(srv, raw)
					rep.Eval(1)
					if real != nil && pv == nil {
						rr, err := real.Do(raw)
						if err != nil {
							rep.Broken("real server: %v", err)
						}
						rep.AddInt("wire_conformance_requests", 1)
						if d := kit.ConformanceDiff(rec, rr, visible && b.panics != "" /* the body is a stack dump */); len(d) > 0 {
							rep.Violation("C12/wire/response-read-by-a-real-client-differs-from-the-recorded-one", d[0], c12case{cf, raw, b.name, strings.Join(d, "; "), "net/http on a real connection delivers what the strict writer recorded"})
						}
					}
					body := rec.Body.String()
					if strings.Contains(strings.Join(rec.Snap.Values("Content-Encoding"), ","), "gzip") {
						if dec, err := kit.Gunzip(rec.Body.Bytes()); err == nil {
							body = string(dec)
						} else {
							body = "<undecodable gzip> " + body
						}
					}
					short := body
					if len(short) > 60 {
						short = short[:60] + "..."
					}
					got := fmt.Sprintf("status=%d commits=%d superfluous=%d body=%q", rec.Status, rec.HeaderCalls, rec.Superfluous, short)
					mods := ""
					if b.retErr {
						mods += "/handler-returned-error"
					}
					if strings.Contains(b.script, "flush") {
						mods += "/flush"
					}
					if p == "/t.html" && has["templates"] != "" {
						mods += "/templates"
					}
					if strings.Contains(has["errors"], "visible") {
						mods += "/errors-visible"
					}
					fail := func(kind, want string) {
						rep.Violation("C12/"+kind+mods, b.name+" on "+p, c12case{cf, raw, b.name, got, want})
					}
					if pv != nil {
						fail("panic-escaped-server", "no panic leaves Server.ServeHTTP")
						continue
					}
					// which handler answers?
					intercepted := 0
					switch {
					case p == "/teapot" && has["status"] != "":
						intercepted = 418
					case p == "/int/y" && has["internal"] != "":
						intercepted = 404
					}
					expStatus, expBody, checkBody := 0, "", false
					class := ""
					switch {
					case intercepted != 0:
						expStatus = intercepted
						class = fmt.Sprintf("intercepted-%d", intercepted)
					case b.panics == "before":
						expStatus = 500
						class = "panic-before-writing"
					case b.panics == "after":
						expStatus = 200
						class = "panic-after-writing"
					case strings.HasPrefix(b.name, accel.name) && has["internal"] != "":
						expStatus = 500
						class = "internal-redirect-loop"
					case b.wrote && b.body == tplErr && p == "/t.html" && has["templates"] != "":
						expStatus = 500
						class = "template-execution-error"
					case b.wrote:
						expStatus, expBody, checkBody = b.status, b.body, true
						class = "handler-wrote"
					case b.status >= 400:
						expStatus = b.status
						class = "error-status-returned"
					default:
						class = "non-error-status-returned-without-writing"
					}
					if expStatus != 0 && rec.Status != expStatus {
						if !(b.panics == "after" && rec.Status == 500 && rec.Superfluous == 0) { // a buffering wrapper may not have committed yet: then 500 is the contained outcome
							fail("wrong-status/"+class, fmt.Sprintf("status %d", expStatus))
						}
					}
					if checkBody && body != expBody && b.panics == "" {
						fail("body-altered/"+class, fmt.Sprintf("body %q", expBody[:min(len(expBody), 60)]))
					}
					if cl := rec.Snap.Get("Content-Length"); cl != "" && cl != fmt.Sprint(rec.Body.Len()) && rec.Status != 204 && rec.Status != 304 {
						fail("content-length-mismatch/"+class, fmt.Sprintf("Content-Length %s equal to the %d body bytes sent", cl, rec.Body.Len()))
					}
					if class == "error-status-returned" || class == "panic-before-writing" || class == "template-execution-error" || class == "internal-redirect-loop" || (intercepted != 0) {
						if strings.TrimSpace(body) == "" {
							fail("error-without-body/"+class, "an error body")
						}
						if customPages && !(visible) && class != "panic-before-writing" && class != "template-execution-error" && class != "internal-redirect-loop" {
							want := "GENERIC-ERROR-PAGE"
							if expStatus == 404 {
								want = "CUSTOM-404-PAGE"
							}
							if body != want {
								fail("configured-error-page-not-used/"+class, want)
							}
						}
					}
					if has["internal"] != "" && rec.Snap.Get("X-Accel-Redirect") != "" {
						// (the field is the inner handler's request to `internal`, never part of an answer)
						fail("internal-redirect-header-reaches-the-client/"+class, "no X-Accel-Redirect field in the response of a site with `internal`")
					}
					if rec.Superfluous > 0 && b.panics != "after" {
						fail("header-committed-twice/"+class, "a single header commit")
					}
					if b.panics != "" {
						// the server keeps serving
						rec2, pv2, _ := kit.Serve(srv, kit.Get("GET", "/plain.txt", "a.test:8080"))
						rep.Eval(1)
						if pv2 != nil || rec2.Status != 200 || rec2.Body.String() != "PLAIN-FILE" {
							fail("server-broken-after-panic", "200 PLAIN-FILE for the next request")
						}
					}
					local[class]++
					// the same request made conditional or for a range, where the answer is a plain 200 written by the handler: whoever
					// wraps the writer may answer the condition itself, but only with a response that is well formed for that answer
					if class == "handler-wrote" && b.status == 200 && !b.retErr && ae == "" && (p == "/t.html" || p == "/x") && !strings.Contains(b.script, "flush") && !strings.Contains(b.script, "X-Accel") {
						for _, cond := range []string{"If-None-Match: *", "If-Match: \"zzz\"", "Range: bytes=0-1", "Range: bytes=1-", "If-Modified-Since: Fri, 01 Jan 2100 00:00:00 GMT", "If-Unmodified-Since: Thu, 01 Jan 1970 00:00:01 GMT", "Range: bytes=99999-"} {
							rawc := kit.Get("GET", p, "a.test:8080", append(append([]string{}, hdr...), cond)...)
							rc, pvc, _ := kit.Serve(srv, rawc)
							rep.Eval(1)
							gotc := fmt.Sprintf("status=%d commits=%d superfluous=%d Content-Length=%q Content-Range=%q body=%d bytes", rc.Status, rc.HeaderCalls, rc.Superfluous, rc.Snap.Get("Content-Length"), rc.Snap.Get("Content-Range"), rc.Body.Len())
							failc := func(kind, want string) {
								rep.Violation("C12/conditional-request/"+kind+mods, b.name+" on "+p+" with "+cond, c12case{cf, rawc, b.name, gotc, want})
							}
							if pvc != nil {
								failc("panic-escaped-server", "no panic leaves Server.ServeHTTP")
								continue
							}
							cb := rc.Body.String()
							switch rc.Status {
							case 200:
								if cb != expBody {
									failc("status-200-without-the-whole-body", fmt.Sprintf("status 200 carries the %d bytes of the response", len(expBody)))
								}
							case 206:
								cr := rc.Snap.Get("Content-Range")
								var a, z, n int
								if k, _ := fmt.Sscanf(cr, "bytes %d-%d/%d", &a, &z, &n); k != 3 || n != len(expBody) || a > z || z >= n || cb != expBody[a:z+1] {
									failc("partial-content-malformed", "206 with a Content-Range inside the response and exactly those bytes")
								}
							case 304, 412, 416:
								if cb != "" && rc.Status != 416 {
									failc("body-on-bodiless-status", "no body")
								}
							default:
								failc("unexpected-status", "200, 206, 304, 412 or 416")
							}
							if cl := rc.Snap.Get("Content-Length"); cl != "" && cl != fmt.Sprint(rc.Body.Len()) && rc.Status != 304 {
								failc("content-length-mismatch", fmt.Sprintf("Content-Length %s equal to the %d body bytes sent", cl, rc.Body.Len()))
							}
							if rc.Superfluous > 0 {
								failc("header-committed-twice", "a single header commit")
							}
							local[fmt.Sprintf("conditional/%d", rc.Status)]++
						}
					}
				}
			}
		}
		rep.ClassN(local)
		if si == 200 {
			rep.Sample(map[string]interface{}{"casketfile": cf, "request": kit.Get("GET", "/t.html", "a.test:8080", "X-Probe: hdr:Content-Type=text/html;status:404;write:5000xt;flush;write:x;ret:0:boom", "Accept-Encoding: gzip")})
		}
		return true
	})
	_ = http.StatusOK
	rep.Finish()
}
