package kit

import (
	"bufio"
	"bytes"
	"fmt"
	"io"
	"log"
	"net"
	"net/http"
	"sort"
	"strings"
	"sync"
	"time"
)

// RealServer runs a handler behind a genuine net/http server on an in-memory
// listener. It exists to keep the strict writer Rec honest: the same request
// is served once through Rec and once through net/http, and ConformanceDiff
// compares what a real client reads with what Rec says was sent.
type RealServer struct {
	srv   *http.Server
	ln    *memListener
	close sync.Once
}

type memListener struct {
	ch   chan net.Conn
	done chan struct{}
}

func (l *memListener) Accept() (net.Conn, error) {
	select {
	case c := <-l.ch:
		return c, nil
	case <-l.done:
		return nil, net.ErrClosed
	}
}
func (l *memListener) Close() error   { return nil }
func (l *memListener) Addr() net.Addr { return &net.TCPAddr{IP: net.IPv4(192, 0, 2, 1), Port: 8080} }

// peerConn gives the server side of a pipe the remote address kit.Req uses.
type peerConn struct{ net.Conn }

func (peerConn) RemoteAddr() net.Addr {
	return &net.TCPAddr{IP: net.IPv4(192, 0, 2, 7), Port: 41234}
}
func (peerConn) LocalAddr() net.Addr { return &net.TCPAddr{IP: net.IPv4(192, 0, 2, 1), Port: 8080} }

// NewRealServer starts serving h.
func NewRealServer(h http.Handler) *RealServer {
	rs := &RealServer{ln: &memListener{ch: make(chan net.Conn), done: make(chan struct{})}}
	rs.srv = &http.Server{Handler: h, ErrorLog: log.New(io.Discard, "", 0)}
	go rs.srv.Serve(rs.ln)
	return rs
}

// Close stops the server.
func (rs *RealServer) Close() {
	rs.close.Do(func() {
		close(rs.ln.done)
		rs.srv.Close()
	})
}

// RealResp is what a client read from a RealServer.
type RealResp struct {
	Status  int
	Header  http.Header
	Body    []byte
	Trailer http.Header
	ReadErr string // non-empty when the response could not be read to its end
}

// Do sends one raw HTTP/1.1 request on a fresh connection and reads the response.
func (rs *RealServer) Do(raw string) (*RealResp, error) {
	req, err := Req(raw)
	if err != nil {
		return nil, err
	}
	cli, srvSide := net.Pipe()
	select {
	case rs.ln.ch <- peerConn{srvSide}:
	case <-time.After(10 * time.Second):
		return nil, fmt.Errorf("real server does not accept")
	}
	defer cli.Close()
	cli.SetDeadline(time.Now().Add(20 * time.Second))
	go func() {
		// make the server close the connection after this response
		r := raw
		if i := strings.Index(r, "\r\n"); i >= 0 && !strings.Contains(strings.ToLower(r), "\r\nconnection:") {
			r = r[:i+2] + "Connection: close\r\n" + r[i+2:]
		}
		io.WriteString(cli, r)
	}()
	br := bufio.NewReader(cli)
	resp, err := http.ReadResponse(br, req)
	for err == nil && resp.StatusCode >= 100 && resp.StatusCode <= 199 && resp.StatusCode != http.StatusSwitchingProtocols {
		resp, err = http.ReadResponse(br, req) // informational responses precede the final one
	}
	if err != nil {
		return &RealResp{ReadErr: "no response: " + err.Error()}, nil
	}
	out := &RealResp{Status: resp.StatusCode, Header: resp.Header}
	var buf bytes.Buffer
	if _, err := io.Copy(&buf, resp.Body); err != nil {
		out.ReadErr = err.Error()
	}
	resp.Body.Close()
	out.Body = buf.Bytes()
	out.Trailer = resp.Trailer
	// net/http's client side moves these out of the header map
	if resp.ContentLength >= 0 && out.Header.Get("Content-Length") == "" {
		out.Header.Set("Content-Length", fmt.Sprint(resp.ContentLength))
	}
	return out, nil
}

// transportHeaders are set or consumed by net/http's own framing on either side.
var transportHeaders = map[string]bool{"Date": true, "Content-Length": true, "Transfer-Encoding": true, "Connection": true, "Trailer": true}

// ConformanceDiff lists the differences between what Rec recorded and what a
// real client read for the same request; empty means they agree. Framing
// headers are compared only as far as the strict writer models them.
func ConformanceDiff(rec *Rec, real *RealResp, ignoreBody bool) []string {
	var d []string
	if real.Status != rec.Status {
		d = append(d, fmt.Sprintf("status: writer %d, net/http %d", rec.Status, real.Status))
	}
	if real.ReadErr != "" {
		// a real client sees a broken transfer exactly when fewer body bytes were written than announced
		cl := rec.Snap.Get("Content-Length")
		if !(cl != "" && cl != fmt.Sprint(rec.Body.Len()) && rec.Method != "HEAD") {
			d = append(d, "net/http transfer broke ("+real.ReadErr+") although the writer recorded a complete response")
		}
	} else if rec.Method != "HEAD" && !ignoreBody && !bytes.Equal(rec.Body.Bytes(), real.Body) {
		d = append(d, fmt.Sprintf("body: writer %d bytes, net/http %d bytes", rec.Body.Len(), len(real.Body)))
	}
	keys := map[string]bool{}
	for k := range rec.Snap {
		keys[k] = true
	}
	for k := range real.Header {
		keys[k] = true
	}
	var ks []string
	for k := range keys {
		if !transportHeaders[k] && !strings.HasPrefix(k, http.TrailerPrefix) {
			ks = append(ks, k)
		}
	}
	sort.Strings(ks)
	for _, k := range ks {
		a, b := rec.Snap[k], real.Header[k]
		if strings.Join(a, "\x00") != strings.Join(b, "\x00") {
			d = append(d, fmt.Sprintf("header %s: writer %q, net/http %q", k, a, b))
		}
	}
	if a, b := rec.Snap.Get("Content-Length"), real.Header.Get("Content-Length"); a != "" && bodyAllowed(rec.Status) && a != b && real.ReadErr == "" && !ignoreBody {
		d = append(d, fmt.Sprintf("Content-Length: writer %q, net/http %q", a, b))
	}
	var tk []string
	for k := range rec.Trailer {
		tk = append(tk, k)
	}
	sort.Strings(tk)
	for _, k := range tk {
		if strings.Join(rec.Trailer[k], "\x00") != strings.Join(real.Trailer[k], "\x00") && real.ReadErr == "" {
			d = append(d, fmt.Sprintf("trailer %s: writer %q, net/http %q", k, rec.Trailer[k], real.Trailer[k]))
		}
	}
	return d
}
