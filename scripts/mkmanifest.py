#!/usr/bin/env python3
"""Regenerates MANIFEST.json from scripts/manifest_src.json (claimed checks) and properties.jsonl."""
import json,os
root=os.path.dirname(os.path.dirname(os.path.abspath(__file__)))
src=json.load(open(os.path.join(root,'scripts/manifest_src.json')))
props=[json.loads(l)['id'] for l in open(os.path.join(root,'properties.jsonl'))]
checks=[]
for pid in props:
    c=src['checks'].get(pid)
    if not c: continue
    if not os.path.isdir(os.path.join(root,'checks',pid.lower())): continue
    e={"property_id":pid,
       "quick_cmd":f"scripts/vcheck run {pid} quick",
       "thorough_cmd":f"scripts/vcheck run {pid} thorough",
       "evidence_file":f"/verif/evidence/{pid}.json",
       "replay_cmd_template":"scripts/vcheck replay {path}",
       "engine":c['engine'],
       "level_claimed":{"category":c['level'],"text":c['text'],"design_ref":c['design_ref']},
       "level_note":c['note'],
       "technique":c['technique']}
    checks.append(e)
claimed={c['property_id'] for c in checks}
na=[{"property_id":p,"reason":src['not_applicable'].get(p,"check not built yet in this round (planned: see DESIGN.md section 5); not claimed until it exists and is green")} for p in props if p not in claimed]
m={"version":1,
   "setup_cmd":"scripts/setup.sh",
   "hooks":src['hooks'],
   "engines":src['engines'],
   "checks":checks,
   "notes":src['notes'],
   "not_applicable":na}
json.dump(m,open(os.path.join(root,'MANIFEST.json'),'w'),indent=1)
print("claimed:",sorted(claimed)); print("not_applicable:",[x['property_id'] for x in na])
