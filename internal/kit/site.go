package kit

import (
	"bufio"
	"bytes"
	"errors"
	"fmt"
	"io"
	"log"
	"net/http"
	"os"
	"strings"
	"sync"
	"sync/atomic"
	"time"

	"github.com/tmpim/casket"
	_ "github.com/tmpim/casket/caskethttp" // all standard directives
	"github.com/tmpim/casket/caskethttp/httpserver"
)

// LogSink captures the process log (the std logger) so that checks can look
// for [PANIC] / [ERROR] lines.
type LogSink struct {
	mu    sync.Mutex
	lines []string
	total int
	// Off disables retention (only Panics is maintained); for checks that
	// issue millions of requests in parallel and do not read the log.
	Off    atomic.Bool
	Panics atomic.Int64
}

func (l *LogSink) Write(p []byte) (int, error) {
	if bytes.Contains(p, []byte("[PANIC")) {
		l.Panics.Add(1)
	}
	if l.Off.Load() {
		return len(p), nil
	}
	l.mu.Lock()
	l.total++
	if len(l.lines) >= 4096 {
		l.lines = l.lines[1024:]
	}
	l.lines = append(l.lines, string(p))
	l.mu.Unlock()
	return len(p), nil
}

// Mark returns a position in the log.
func (l *LogSink) Mark() int {
	l.mu.Lock()
	defer l.mu.Unlock()
	return l.total
}

// Since returns the lines logged after mark (those still retained).
func (l *LogSink) Since(mark int) []string {
	l.mu.Lock()
	defer l.mu.Unlock()
	n := l.total - mark
	if n > len(l.lines) {
		n = len(l.lines)
	}
	if n <= 0 {
		return nil
	}
	return append([]string{}, l.lines[len(l.lines)-n:]...)
}

// Log is the process log sink installed by Init.
var Log = &LogSink{}

var initOnce sync.Once

// Init prepares the process: quiet casket, log capture.
func Init() {
	initOnce.Do(func() {
		casket.AppName = "Casket"
		casket.AppVersion = "verif"
		casket.Quiet = true
		httpserver.GracefulTimeout = 50 * time.Millisecond
		casket.GracefulTimeout = 50 * time.Millisecond
		log.SetOutput(Log)
		log.SetFlags(0)
	})
}

// Loaded is a configuration loaded through the real directive setup.
type Loaded struct {
	Inst    *casket.Instance
	Servers []*httpserver.Server
	closed  bool
}

var loadMu sync.Mutex

// ParallelLoads lets Load run concurrently (set by checks whose directive
// menus were checked with -race to have no unsynchronised setup state).
var ParallelLoads bool

// Load parses text as a Casketfile located at path (which need not exist)
// for the http server type, executes all directives and parsing callbacks,
// builds the servers and runs the startup callbacks. No listener is opened.
func Load(text, path string) (*Loaded, error) {
	Init()
	if !ParallelLoads {
		loadMu.Lock()
		defer loadMu.Unlock()
	}
	inst, slist, err := casket.VerifLoad(casket.CasketfileInput{Contents: []byte(text), Filepath: path, ServerTypeName: "http"})
	if err != nil {
		// let anything already registered (log files, cert caches) shut down
		if inst != nil {
			inst.ShutdownCallbacks()
		}
		return nil, err
	}
	l := &Loaded{Inst: inst}
	for _, s := range slist {
		hs, ok := s.(*httpserver.Server)
		if !ok {
			return nil, fmt.Errorf("unexpected server type %T", s)
		}
		l.Servers = append(l.Servers, hs)
	}
	for _, f := range inst.OnFirstStartup {
		if err := f(); err != nil {
			l.closed = true
			inst.ShutdownCallbacks() // (the load lock is already held)
			return nil, fmt.Errorf("first startup callback: %v", err)
		}
	}
	for _, f := range inst.OnStartup {
		if err := f(); err != nil {
			l.closed = true
			inst.ShutdownCallbacks()
			return nil, fmt.Errorf("startup callback: %v", err)
		}
	}
	return l, nil
}

// Close runs the shutdown callbacks of the instance.
func (l *Loaded) Close() {
	if l == nil || l.closed {
		return
	}
	l.closed = true
	if !ParallelLoads {
		loadMu.Lock()
		defer loadMu.Unlock()
	}
	l.Inst.ShutdownCallbacks()
}

// Server returns the single server of l (or the one listening on port).
func (l *Loaded) Server(port string) *httpserver.Server {
	if port == "" && len(l.Servers) == 1 {
		return l.Servers[0]
	}
	for _, s := range l.Servers {
		if strings.HasSuffix(s.Address(), ":"+port) {
			return s
		}
	}
	return nil
}

// Req builds a request exactly as net/http's server would hand it over: the
// raw bytes are parsed with http.ReadRequest.
func Req(raw string) (*http.Request, error) {
	r, err := http.ReadRequest(bufio.NewReader(strings.NewReader(raw)))
	if err != nil {
		return nil, err
	}
	r.RemoteAddr = "192.0.2.7:41234"
	return r, nil
}

// MustReq is Req for literals known to be valid.
func MustReq(raw string) *http.Request {
	r, err := Req(raw)
	if err != nil {
		panic(fmt.Sprintf("bad raw request %q: %v", raw, err))
	}
	return r
}

// Get builds "GET target HTTP/1.1" with Host and extra header lines.
func Get(method, target, host string, hdr ...string) string {
	var b strings.Builder
	fmt.Fprintf(&b, "%s %s HTTP/1.1\r\nHost: %s\r\n", method, target, host)
	for _, h := range hdr {
		b.WriteString(h)
		b.WriteString("\r\n")
	}
	b.WriteString("\r\n")
	return b.String()
}

// Rec is a strict in-memory http.ResponseWriter reproducing the net/http
// server rules the oracles depend on.
type Rec struct {
	Method      string
	hdr         http.Header
	Committed   bool
	Status      int
	Snap        http.Header // header as frozen at commit
	Body        bytes.Buffer
	HeaderCalls int // WriteHeader calls that reached this writer (>=200 or 101)
	Superfluous int // WriteHeader calls after commit
	Flushes     int
	WriteErrs   int
	FailAfter   int // >0: the client goes away after that many body bytes (writes beyond it fail)
	FailDelay   time.Duration
	preFlush    int // body bytes before first flush (-1 = none yet)
	closeCh     chan bool
	Pushed      []string
	NoPush      bool
	finished    bool
	Trailer     http.Header
	sniff       []byte // first bytes written before the first flush (kept for HEAD too: net/http sniffs them although it sends none)
}

// NewRec makes a writer for a request with the given method.
func NewRec(method string) *Rec {
	return &Rec{Method: method, hdr: http.Header{}, preFlush: -1, closeCh: make(chan bool, 1)}
}

func (w *Rec) Header() http.Header { return w.hdr }

func (w *Rec) WriteHeader(code int) {
	if IOPoint != nil {
		IOPoint()
	}
	if code < 100 || code > 999 {
		panic(fmt.Sprintf("invalid WriteHeader code %v", code))
	}
	if w.Committed {
		w.Superfluous++
		return
	}
	if code >= 100 && code <= 199 && code != 101 {
		return // informational, not a commit
	}
	w.HeaderCalls++
	w.Committed = true
	w.Status = code
	w.Snap = w.hdr.Clone()
}

func bodyAllowed(status int) bool {
	switch {
	case status >= 100 && status <= 199:
		return false
	case status == 204:
		return false
	case status == 304:
		return false
	}
	return true
}

// IOPoint, when set, is called at the start of every WriteHeader, Write and Flush of a Rec and before every operation of the
// probe directive (the E2 harnesses make these scheduling points: I/O is where overlapping requests interleave).
var IOPoint func()

func (w *Rec) Write(p []byte) (int, error) {
	if IOPoint != nil {
		IOPoint()
	}
	if !w.Committed {
		w.WriteHeader(200)
	}
	if !bodyAllowed(w.Status) {
		w.WriteErrs++
		return 0, http.ErrBodyNotAllowed
	}
	if w.preFlush < 0 && len(w.sniff) < 512 {
		w.sniff = append(w.sniff, p[:min(len(p), 512-len(w.sniff))]...)
	}
	if w.Method == "HEAD" {
		return len(p), nil
	}
	if w.FailAfter > 0 && w.Body.Len()+len(p) > w.FailAfter {
		// the client has gone away: the connection takes what fits and reports the failure, now and for every later write
		k := w.FailAfter - w.Body.Len()
		if k > 0 {
			w.Body.Write(p[:k])
		}
		if w.FailDelay > 0 {
			time.Sleep(w.FailDelay) // (a connection that stalls before it breaks: whoever produces the body gets ahead of the writer)
		}
		return max(k, 0), errors.New("write tcp: broken pipe (client gone, injected)")
	}
	if cl := w.Snap.Get("Content-Length"); cl != "" {
		var n int
		if _, err := fmt.Sscanf(cl, "%d", &n); err == nil && w.Body.Len()+len(p) > n {
			w.WriteErrs++
			return 0, http.ErrContentLength
		}
	}
	return w.Body.Write(p)
}

// WriteString and ReadFrom exist on net/http's response writer too (wrappers that forward them reach these).
func (w *Rec) WriteString(s string) (int, error) { return w.Write([]byte(s)) }

func (w *Rec) ReadFrom(r io.Reader) (int64, error) {
	var total int64
	buf := make([]byte, 4096)
	for {
		n, err := r.Read(buf)
		if n > 0 {
			k, werr := w.Write(buf[:n])
			total += int64(k)
			if werr != nil {
				return total, werr
			}
		}
		if err == io.EOF {
			return total, nil
		}
		if err != nil {
			return total, err
		}
	}
}

func (w *Rec) Flush() {
	if IOPoint != nil {
		IOPoint()
	}
	if !w.Committed {
		w.WriteHeader(200)
	}
	if w.preFlush < 0 {
		w.preFlush = w.Body.Len()
	}
	w.Flushes++
}

func (w *Rec) CloseNotify() <-chan bool { return w.closeCh }

// CancelClient simulates the client going away.
func (w *Rec) CancelClient() {
	select {
	case w.closeCh <- true:
	default:
	}
}

func (w *Rec) Push(target string, opts *http.PushOptions) error {
	if w.NoPush {
		return http.ErrNotSupported
	}
	w.Pushed = append(w.Pushed, target)
	return nil
}

// Finish applies the end-of-handler rules (implicit 200, content sniffing,
// trailers) and returns w.
func (w *Rec) Finish() *Rec {
	if w.finished {
		return w
	}
	w.finished = true
	if !w.Committed {
		w.WriteHeader(200)
	}
	if _, ok := w.Snap["Content-Type"]; !ok && w.Snap.Get("Content-Encoding") == "" && bodyAllowed(w.Status) {
		if len(w.sniff) > 0 {
			w.Snap.Set("Content-Type", http.DetectContentType(w.sniff))
		}
	}
	// headers net/http never sends with these statuses
	switch {
	case w.Status == 304:
		w.Snap.Del("Content-Type")
		w.Snap.Del("Content-Length")
		w.Snap.Del("Transfer-Encoding")
	case w.Status == 204 || (w.Status >= 100 && w.Status <= 199):
		w.Snap.Del("Content-Length")
		w.Snap.Del("Transfer-Encoding")
	}
	w.Trailer = http.Header{}
	for _, t := range w.Snap.Values("Trailer") {
		for _, k := range strings.Split(t, ",") {
			k = http.CanonicalHeaderKey(strings.TrimSpace(k))
			if vv, ok := w.hdr[k]; ok {
				w.Trailer[k] = append([]string{}, vv...)
			}
		}
	}
	for k, vv := range w.hdr {
		if strings.HasPrefix(k, http.TrailerPrefix) {
			w.Trailer[strings.TrimPrefix(k, http.TrailerPrefix)] = append([]string{}, vv...)
		}
	}
	return w
}

// Serve runs one raw request through srv's entry point with a strict writer.
// A panic escaping ServeHTTP is returned as panicVal.
func Serve(srv http.Handler, raw string) (rec *Rec, panicVal interface{}, err error) {
	r, err := Req(raw)
	if err != nil {
		return nil, nil, err
	}
	return ServeReq(srv, r)
}

// ServeReq is Serve for an already built request.
func ServeReq(srv http.Handler, r *http.Request) (rec *Rec, panicVal interface{}, err error) {
	return ServeReqRec(srv, r, NewRec(r.Method))
}

// ServeReqRec is ServeReq with a writer prepared by the caller (a client that goes away: FailAfter).
func ServeReqRec(srv http.Handler, r *http.Request, rec *Rec) (_ *Rec, panicVal interface{}, err error) {
	func() {
		defer func() { panicVal = recover() }()
		srv.ServeHTTP(rec, r)
	}()
	if r.Body != nil {
		io.Copy(io.Discard, r.Body)
		r.Body.Close()
	}
	rec.Finish()
	return rec, panicVal, nil
}

// TempDir makes a scratch directory that the caller removes.
func TempDir(prefix string) string {
	d, err := os.MkdirTemp("", "verif-"+prefix+"-")
	if err != nil {
		panic(err)
	}
	return d
}
