// C07 — reloading the configuration never drops or misroutes a request.
//
// Real casket.Start on loopback with two listen addresses; two clients whose
// dial / send / receive steps are placed at every combination of positions
// relative to the gates of a reload (before, old OnRestart, new OnStartup,
// new listener about to serve, old OnShutdown, after return), for successful
// reloads and reloads failing at parse, setup, startup callback and listen.
package main

import (
	"bufio"
	"fmt"
	"net"
	"net/http"
	"os"
	"path/filepath"
	"runtime"
	"strings"
	"sync/atomic"
	"time"

	"github.com/tmpim/casket"
	"github.com/tmpim/casket/caskethttp/httpserver"
	"verif/internal/kit"
)

const (
	posBefore = iota
	posRestartCB
	posNewStartup
	posNewListener
	posOldShutdown
	posAfter
	nPos
)

var posName = []string{"before", "old-OnRestart", "new-OnStartup", "new-listener-wrapped", "old-OnShutdown", "after-return"}

type clientPlan struct{ dial, send, recv int }

type client struct {
	port   int
	conn   net.Conn
	plan   clientPlan
	result string // "" until received
	err    string
	sent   bool
}

func (c *client) step(s string) {
	switch s {
	case "dial":
		conn, err := net.DialTimeout("tcp", fmt.Sprintf("127.0.0.1:%d", c.port), 3*time.Second)
		if err != nil {
			c.err = "dial: " + err.Error()
			return
		}
		c.conn = conn
	case "send":
		if c.conn == nil {
			return
		}
		c.conn.SetDeadline(time.Now().Add(10 * time.Second))
		if _, err := c.conn.Write([]byte("GET /ok HTTP/1.1\r\nHost: 127.0.0.1\r\nConnection: close\r\n\r\n")); err != nil {
			c.err = "send: " + err.Error()
		}
		c.sent = true
	case "recv":
		if c.conn == nil || c.err != "" {
			return
		}
		resp, err := http.ReadResponse(bufio.NewReader(c.conn), nil)
		if err != nil {
			c.err = "recv: " + err.Error()
			return
		}
		resp.Body.Close()
		c.result = fmt.Sprintf("%d %s", resp.StatusCode, resp.Header.Get("X-V"))
		c.conn.Close()
	}
}

// explorer state shared with the gate callbacks (one execution at a time)
var (
	reloading bool
	doneAt    [nPos]bool
	clients   []*client
	reached   []string
)

func runPosition(p int) {
	if doneAt[p] {
		return
	}
	doneAt[p] = true
	reached = append(reached, posName[p])
	for _, c := range clients {
		if c.plan.dial == p {
			c.step("dial")
		}
	}
	for _, c := range clients {
		if c.plan.send == p {
			c.step("send")
		}
	}
	for _, c := range clients {
		if c.plan.recv == p {
			c.step("recv")
		}
	}
	// let the accept loops take the connections made at this position and park again before the reload
	// proceeds: see DESIGN.md (C07, hand-over race) for what happens otherwise
	time.Sleep(settle)
}

const settle = 4 * time.Millisecond

func gate(p int) func() error {
	return func() error {
		if reloading {
			// positions are visited in order; a position whose gate is not reached in this kind of reload is run at the next one
			for q := posBefore + 1; q <= p; q++ {
				runPosition(q)
			}
		}
		return nil
	}
}

func init() {
	httpserver.RegisterDevDirective("verif_gate", "")
	casket.RegisterPlugin("verif_gate", casket.Plugin{ServerType: "http", Action: func(c *casket.Controller) error {
		failStartup := false
		for c.Next() {
			for _, a := range c.RemainingArgs() {
				if a == "fail-startup" {
					failStartup = true
				} else {
					return c.Errf("verif_gate: bad argument %s", a)
				}
			}
		}
		c.OnRestart(gate(posRestartCB))
		c.OnStartup(func() error {
			gate(posNewStartup)()
			if failStartup {
				return fmt.Errorf("startup callback failure injected")
			}
			return nil
		})
		c.OnShutdown(gate(posOldShutdown))
		httpserver.GetConfig(c).AddListenerMiddleware(func(l casket.Listener) casket.Listener {
			gate(posNewListener)()
			return l
		})
		return nil
	}})
}

func listenFDs(port int) int { return kit.ListeningFDs()[port] }

func probe(port int) string {
	c := &client{port: port}
	c.step("dial")
	c.step("send")
	c.step("recv")
	if c.err != "" {
		return c.err
	}
	return c.result
}

type c07case struct {
	Reload   string   `json:"reload"`
	Clients  []string `json:"client_step_positions"`
	Reached  []string `json:"positions_reached"`
	Observed []string `json:"observed"`
	Problem  string   `json:"problem"`
}

func main() {
	rep := kit.NewReport("C07", "model_checking",
		"two clients (one per listen address) x every non-decreasing placement of dial / send / receive over 6 positions of a reload (before, old OnRestart, new OnStartup, new listener about to serve, old OnShutdown, after return) - all 56 placements for each client (3136 pairs) - x 5 reload kinds (ok, failing at parse, setup, startup callback, listen), on a real casket.Start/Instance.Restart over loopback sockets; every client must receive one complete response from the old or the new configuration (new if it dialled after a successful return, old after a failed reload), and after every execution the descriptors of the listening sockets and fresh probes must show exactly the expected configuration; distinct_nontrivial = outcome classes")
	if !rep.IsWorker() {
		rep.Assume("interleavings inside net/http's accept/serve loops and the kernel backlog are not enumerated (whoever accepts serves its own configuration); client steps run while the reload is held inside its own callbacks")
		rep.RunWorkers(16)
		rep.Set("traces_validated_against_impl", rep.Evals())
		rep.Set("trace_validation", "every explored interleaving is an execution of the real implementation (casket.Start, Instance.Restart, net/http over loopback)")
		rep.Finish()
	}
	runtime.GOMAXPROCS(2)
	kit.Init()
	httpserver.GracefulTimeout = 40 * time.Millisecond
	dir := kit.TempDir("c07")
	defer os.RemoveAll(dir)
	base := 19000 + *kit.FlagWorker*8
	p0, p1, pBusy := base, base+1, base+2
	busy, err := net.Listen("tcp", fmt.Sprintf("127.0.0.1:%d", pBusy))
	if err != nil {
		rep.Broken("cannot reserve port %d: %v", pBusy, err)
	}
	defer busy.Close()
	config := func(v int, kind string) string {
		gateLine := "verif_gate"
		if kind == "startup" {
			gateLine = "verif_gate fail-startup"
		}
		s := ""
		for _, p := range []int{p0, p1} {
			s += fmt.Sprintf("127.0.0.1:%d {\n\theader / X-V v%d\n\tstatus 204 /ok\n\t%s\n", p, v, gateLine)
			if kind == "setup" {
				s += "\tbasicauth /only-one-argument\n"
			}
			s += "}\n"
		}
		switch kind {
		case "parse":
			s += "{\n"
		case "listen":
			s += fmt.Sprintf("127.0.0.1:%d {\n\tstatus 204 /ok\n}\n", pBusy)
		}
		return s
	}
	var plans []clientPlan
	for d := 0; d < nPos; d++ {
		for s := d; s < nPos; s++ {
			for r := s; r < nPos; r++ {
				plans = append(plans, clientPlan{d, s, r})
			}
		}
	}
	second := plans
	kinds := []string{"ok", "parse", "setup", "startup", "listen"}
	states := map[string]bool{}
	// watchdog: an execution that does not finish within 90 s is reported as a hang and ends the worker
	var execStart atomic.Int64
	var execDesc atomic.Pointer[string]
	go func() {
		for {
			time.Sleep(time.Second)
			if st := execStart.Load(); st != 0 && time.Now().UnixNano()-st > int64(90*time.Second) {
				rep.Violation("C07/hang", "an execution (start, reload with client steps, stop) did not finish within 90 s", c07case{Problem: *execDesc.Load()})
				rep.Capped("worker stopped after a hang")
				rep.Finish()
			}
		}
	}()
	item := 0
	for _, kind := range kinds {
		for _, pl0 := range plans {
			item++
			if !rep.Mine(item) {
				continue
			}
			if rep.Expired() {
				rep.Capped("deadline")
				rep.Finish()
			}
			for _, pl1 := range second {
				if only := os.Getenv("C07_ONLY"); only != "" && only != fmt.Sprintf("%s:%v:%v", kind, pl0, pl1) {
					continue
				}
				// ---- one execution ----
				desc := fmt.Sprintf("reload=%s client0=%v client1=%v", kind, pl0, pl1)
				execDesc.Store(&desc)
				execStart.Store(time.Now().UnixNano())
				in1 := casket.CasketfileInput{Contents: []byte(config(1, "")), Filepath: filepath.Join(dir, "Casketfile"), ServerTypeName: "http"}
				reloading = false
				inst, err := casket.Start(in1)
				if err != nil {
					if rep.ViolationCount() > 0 {
						// an earlier execution left listeners behind (already reported): this worker cannot continue
						rep.Capped("worker stopped: ports still bound after a reported violation")
						rep.Finish()
					}
					rep.Broken("initial start: %v", err)
				}
				clients = []*client{{port: p0, plan: pl0}, {port: p1, plan: pl1}}
				doneAt = [nPos]bool{}
				reached = nil
				runPosition(posBefore)
				reloading = true
				in2 := casket.CasketfileInput{Contents: []byte(config(2, kind)), Filepath: filepath.Join(dir, "Casketfile"), ServerTypeName: "http"}
				ni, rerr := inst.Restart(in2)
				reloading = false
				for q := posBefore + 1; q < nPos; q++ {
					runPosition(q) // positions whose gates were not reached, then "after return"
				}
				rep.Eval(1)
				ok := rerr == nil
				if ok {
					inst = ni
				}
				expectOK := kind == "ok"
				var problems []string
				if ok != expectOK {
					problems = append(problems, fmt.Sprintf("reload/%s: Restart returned error=%v", kind, rerr))
				}
				var obs []string
				for ci, c := range clients {
					o := c.result
					if c.err != "" {
						o = c.err
					}
					obs = append(obs, fmt.Sprintf("client%d(dial@%s,send@%s,recv@%s): %s", ci, posName[c.plan.dial], posName[c.plan.send], posName[c.plan.recv], o))
					switch {
					case c.err != "":
						problems = append(problems, fmt.Sprintf("request-lost: client %d (%s)", ci, c.err))
					case !ok && c.result != "204 v1":
						problems = append(problems, fmt.Sprintf("failed-reload-not-answered-by-old-config: client %d got %q", ci, c.result))
					case ok && c.plan.dial == posAfter && c.result != "204 v2":
						problems = append(problems, fmt.Sprintf("request-after-successful-reload-answered-by-old-config: client %d got %q", ci, c.result))
					case c.result != "204 v1" && c.result != "204 v2":
						problems = append(problems, fmt.Sprintf("malformed-response: client %d got %q", ci, c.result))
					}
				}
				want := "204 v1"
				if ok {
					want = "204 v2"
				}
				// settle: the old instance's connections drain within the graceful timeout
				for _, p := range []int{p0, p1} {
					if n := listenFDs(p); n != 1 {
						problems = append(problems, fmt.Sprintf("listener-descriptors: port %d is held by %d descriptors after the reload returned, want 1", p, n))
					}
					for k := 0; k < 4; k++ {
						if got := probe(p); got != want {
							problems = append(problems, fmt.Sprintf("probe-after-reload: port %d answered %q, want %q", p, got, want))
							break
						}
					}
				}
				casket.Stop()
				for _, p := range []int{p0, p1} {
					if n := listenFDs(p); n != 0 {
						problems = append(problems, fmt.Sprintf("listener-left-open-after-stop: port %d still has %d listening descriptors", p, n))
					}
				}
				execStart.Store(0)
				states[fmt.Sprintf("%s|%v|%v", kind, reached, obs)] = true
				if len(problems) > 0 {
					kindSig := strings.SplitN(problems[0], ":", 2)[0]
					rep.Violation("C07/"+kindSig+"/reload="+kind, strings.Join(problems, "; "), c07case{kind, []string{fmt.Sprint(pl0), fmt.Sprint(pl1)}, reached, obs, strings.Join(problems, "; ")})
				}
				rep.Class(fmt.Sprintf("reload=%s/c0:%s/c1:%s", kind, clients[0].result, clients[1].result))
				if kind == "ok" && pl0 == (clientPlan{posRestartCB, posNewListener, posOldShutdown}) && pl1 == second[0] {
					rep.Sample(map[string]interface{}{"reload": kind, "positions_reached": reached, "observed": obs})
				}
				// instances that failed to stop cleanly must not leak into the next execution
				if n := len(casket.Instances()); n != 0 {
					rep.Broken("instances left after Stop: %d", n)
				}
			}
		}
	}
	rep.AddInt("states", int64(len(states)))
	rep.AddInt("transitions", rep.Evals()*int64(nPos))
	rep.Finish()
}
