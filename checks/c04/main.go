// C04 — the reverse proxy relays requests and responses faithfully.
package main

import (
	"bytes"
	"errors"
	"fmt"
	"io"
	"net"
	"net/http"
	"reflect"
	"sort"
	"strings"

	"github.com/tmpim/casket/casketfile"
	"github.com/tmpim/casket/caskethttp/httpserver"
	"github.com/tmpim/casket/caskethttp/proxy"
	"verif/internal/kit"
)

// ---- dimensions ----

type reqSpec struct {
	method, path, query string
	hdrs                []string // raw header lines
	bodyLen             int
	chunked             bool
	remote              string // client address as net/http reports it ("" = the kit's default IPv4 peer)
	host                string // Host header ("" = client.test)
}

type blockSpec struct {
	base, tquery, without string
	transparent           bool
	up, down              string // header rule line ("" = none)
	backends              int
}

type replySpec struct {
	status   int
	hdrs     [][2]string
	bodyLen  int
	trailers string // "", "announced", "unannounced", "announced-three", "announced-and-unannounced"
}

var hopList = []string{"Alt-Svc", "Alternate-Protocol", "Connection", "Keep-Alive", "Proxy-Authenticate", "Proxy-Authorization", "Proxy-Connection", "Te", "Trailer", "Transfer-Encoding", "Upgrade"}

type seen struct {
	method, escPath, query, host string
	header                       http.Header
	body                         []byte
	closeAfter                   bool // Request.Close: the transport would send "Connection: close" to the backend
}

type recRT struct {
	reply    replySpec
	got      *[]seen
	failRead int // >0: read that many body bytes then fail (retry scenario)
}

func body(n int, c byte) []byte {
	b := make([]byte, n)
	for i := range b {
		b[i] = c + byte(i%7)
	}
	return b
}

func (t *recRT) RoundTrip(r *http.Request) (*http.Response, error) {
	s := seen{method: r.Method, escPath: r.URL.EscapedPath(), query: r.URL.RawQuery, host: r.Host, header: r.Header.Clone(), closeAfter: r.Close}
	if r.Body != nil {
		if t.failRead > 0 {
			buf := make([]byte, t.failRead)
			n, _ := io.ReadFull(r.Body, buf)
			s.body = buf[:n]
			*t.got = append(*t.got, s)
			return nil, errors.New("connection reset by peer")
		}
		s.body, _ = io.ReadAll(r.Body)
	} else if t.failRead > 0 {
		*t.got = append(*t.got, s)
		return nil, errors.New("connection refused")
	}
	*t.got = append(*t.got, s)
	h := http.Header{}
	for _, kv := range t.reply.hdrs {
		h.Add(kv[0], kv[1])
	}
	resp := &http.Response{StatusCode: t.reply.status, Header: h, Request: r, ContentLength: -1, Proto: "HTTP/1.1", ProtoMajor: 1, ProtoMinor: 1}
	payload := body(t.reply.bodyLen, 'R')
	switch t.reply.trailers {
	case "announced":
		resp.Trailer = http.Header{"X-Trail": nil}
		resp.Body = &trailerBody{Reader: bytes.NewReader(payload), resp: resp, set: http.Header{"X-Trail": {"tv"}}}
	case "unannounced":
		resp.Body = &trailerBody{Reader: bytes.NewReader(payload), resp: resp, set: http.Header{"X-Late": {"lv"}}}
	case "announced-three":
		resp.Trailer = http.Header{"X-Trail": nil, "X-Trail-B": nil, "X-Trail-C": nil}
		resp.Body = &trailerBody{Reader: bytes.NewReader(payload), resp: resp, set: http.Header{"X-Trail": {"tv"}, "X-Trail-B": {"tb"}, "X-Trail-C": {"tc"}}}
	case "announced-and-unannounced":
		resp.Trailer = http.Header{"X-Trail": nil, "X-Trail-B": nil}
		resp.Body = &trailerBody{Reader: bytes.NewReader(payload), resp: resp, set: http.Header{"X-Trail": {"tv"}, "X-Trail-B": {"tb"}, "X-Late": {"lv"}}}
	default:
		resp.Body = io.NopCloser(bytes.NewReader(payload))
	}
	return resp, nil
}

// trailerBody fills resp.Trailer when the body has been read to the end, as net/http's transport does.
type trailerBody struct {
	io.Reader
	resp *http.Response
	set  http.Header
}

func (b *trailerBody) Read(p []byte) (int, error) {
	n, err := b.Reader.Read(p)
	if err == io.EOF {
		if b.resp.Trailer == nil {
			b.resp.Trailer = http.Header{}
		}
		for k, v := range b.set {
			b.resp.Trailer[k] = v
		}
	}
	return n, err
}
func (b *trailerBody) Close() error { return nil }

func hostsOf(u proxy.Upstream) proxy.HostPool {
	return reflect.ValueOf(u).Elem().FieldByName("Hosts").Interface().(proxy.HostPool)
}

type c04case struct {
	Block   string `json:"upstream_block"`
	Request string `json:"request"`
	Reply   string `json:"backend_reply"`
	Diffs   string `json:"differences"`
}

func joinPath(base, p string) string {
	aSlash := strings.HasSuffix(base, "/")
	bSlash := strings.HasPrefix(p, "/")
	switch {
	case aSlash && bSlash:
		return base + p[1:]
	case !aSlash && !bSlash && p != "":
		return base + "/" + p
	}
	return base + p
}

func multiset(h http.Header, skip map[string]bool) []string {
	var out []string
	for k, vv := range h {
		if skip[k] {
			continue
		}
		for _, v := range vv {
			out = append(out, k+": "+v)
		}
	}
	sort.Strings(out)
	return out
}

func run(rep *kit.Report, rq reqSpec, bl blockSpec, rp replySpec, retry bool) {
	var names []string
	for i := 0; i < bl.backends; i++ {
		names = append(names, fmt.Sprintf("http://b%d.test%s", i, bl.base))
		if bl.tquery != "" {
			names[i] += "?" + bl.tquery
		}
	}
	var lines []string
	if bl.without != "" {
		lines = append(lines, "without "+bl.without)
	}
	if bl.transparent {
		lines = append(lines, "transparent")
	}
	if bl.up != "" {
		lines = append(lines, "header_upstream "+strings.ReplaceAll(bl.up, "\n", "\n\theader_upstream "))
	}
	if bl.down != "" {
		lines = append(lines, "header_downstream "+strings.ReplaceAll(bl.down, "\n", "\n\theader_downstream "))
	}
	if retry {
		lines = append(lines, "policy first", "try_duration 2s", "try_interval 1ms", "fail_timeout 10s")
	}
	block := fmt.Sprintf("proxy /api %s {\n\t%s\n}", strings.Join(names, " "), strings.Join(lines, "\n\t"))
	// a second proxy directive of the same site, with rules of its own: they belong to that block and are never seen here
	block += "\nproxy /zz http://other.test {\n\ttransparent\n\theader_upstream X-Leak up\n\theader_upstream X-A 1 leak\n\theader_downstream X-Leak down\n\theader_downstream X-B 1 leak\n}"
	ups, err := proxy.NewStaticUpstreams(casketfile.NewDispenser("Casketfile", strings.NewReader(block)), "")
	if err != nil {
		rep.Broken("upstream block does not parse: %v\n%s", err, block)
	}
	var got []seen
	for i, h := range hostsOf(ups[0]) {
		rt := &recRT{reply: rp, got: &got}
		if retry && i == 0 {
			rt.failRead = (rq.bodyLen + 1) / 2
			if rt.failRead == 0 {
				rt.failRead = 1
			}
		}
		h.ReverseProxy.Transport = rt
	}
	p := proxy.Proxy{Upstreams: ups, Next: httpserver.EmptyNext}
	payload := body(rq.bodyLen, 'a')
	var raw bytes.Buffer
	target := rq.path
	if rq.query != "" {
		target += "?" + rq.query
	}
	hostHdr := rq.host
	if hostHdr == "" {
		hostHdr = "client.test"
	}
	fmt.Fprintf(&raw, "%s %s HTTP/1.1\r\nHost: %s\r\n", rq.method, target, hostHdr)
	for _, h := range rq.hdrs {
		raw.WriteString(h + "\r\n")
	}
	if rq.chunked {
		raw.WriteString("Transfer-Encoding: chunked\r\n\r\n")
		if len(payload) > 0 {
			fmt.Fprintf(&raw, "%x\r\n%s\r\n", len(payload), payload)
		}
		raw.WriteString("0\r\n\r\n")
	} else {
		fmt.Fprintf(&raw, "Content-Length: %d\r\n\r\n%s", len(payload), payload)
	}
	req, err := kit.Req(raw.String())
	if err != nil {
		rep.Broken("bad request: %v", err)
	}
	clientIP := "192.0.2.7"
	if rq.remote != "" {
		req.RemoteAddr = rq.remote
		clientIP, _, _ = net.SplitHostPort(rq.remote)
	}
	clientHeader := req.Header.Clone()
	clientEscPath := req.URL.EscapedPath() // (the proxy's director rewrites the shared URL in place)
	rec := kit.NewRec(req.Method)
	var status int
	var perr error
	pv := func() (pv interface{}) {
		defer func() { pv = recover() }()
		status, perr = p.ServeHTTP(rec, req)
		return nil
	}()
	rec.Finish()
	rep.Eval(1)
	reqDesc := fmt.Sprintf("%s %s headers=%v body=%d chunked=%v client=%s", rq.method, target, rq.hdrs, rq.bodyLen, rq.chunked, clientIP)
	replyDesc := fmt.Sprintf("%d headers=%v body=%d trailers=%s", rp.status, rp.hdrs, rp.bodyLen, rp.trailers)
	var diffs []string
	sigKinds := map[string]bool{}
	add := func(kind, msg string) {
		diffs = append(diffs, msg)
		sigKinds[kind] = true
	}
	if pv != nil {
		rep.Violation("C04/panic", fmt.Sprint(pv), c04case{block, reqDesc, replyDesc, fmt.Sprint(pv)})
		return
	}
	wantAttempts := 1
	if retry {
		wantAttempts = 2
	}
	if len(got) != wantAttempts {
		add("attempts", fmt.Sprintf("backend saw %d requests, want %d (status %d err %v)", len(got), wantAttempts, status, perr))
	}
	// ---- upstream request(s) ----
	named := map[string]bool{}
	for _, line := range clientHeader.Values("Connection") {
		for _, f := range strings.Split(line, ",") {
			if f = strings.TrimSpace(f); f != "" {
				named[http.CanonicalHeaderKey(f)] = true
			}
		}
	}
	for ai, g := range got {
		tag := ""
		if retry {
			tag = fmt.Sprintf("attempt %d: ", ai+1)
		}
		if g.method != rq.method {
			add("method", tag+"method "+g.method)
		}
		escIn := clientEscPath
		stripped := escIn
		if bl.without != "" {
			stripped = strings.TrimPrefix(escIn, bl.without)
		}
		wantPath := joinPath(bl.base, stripped)
		if g.escPath != wantPath {
			k := "path"
			if retry && ai > 0 {
				k = "path-on-retry"
			}
			add(k, fmt.Sprintf("%spath %q want %q", tag, g.escPath, wantPath))
		}
		wantQ := rq.query
		if bl.tquery != "" {
			wantQ = bl.tquery
			if rq.query != "" {
				wantQ += "&" + rq.query
			}
		}
		if g.query != wantQ {
			k := "query"
			if retry && ai > 0 {
				k = "query-on-retry"
			}
			add(k, fmt.Sprintf("%squery %q want %q", tag, g.query, wantQ))
		}
		wantBody := payload
		if retry && ai == 0 {
			n := (rq.bodyLen + 1) / 2
			if n == 0 {
				n = 0
			}
			wantBody = payload[:min(n, len(payload))]
		}
		if !bytes.Equal(g.body, wantBody) {
			add("body", fmt.Sprintf("%sbody %d bytes want %d", tag, len(g.body), len(wantBody)))
		}
		// headers
		exp := http.Header{}
		for k, vv := range clientHeader {
			hop := named[k]
			for _, h := range hopList {
				if k == h {
					hop = true
				}
			}
			if hop || k == "X-Forwarded-For" || k == "Content-Length" {
				continue
			}
			exp[k] = append([]string{}, vv...)
		}
		xff := clientIP
		if prior := clientHeader.Values("X-Forwarded-For"); len(prior) > 0 {
			xff = strings.Join(prior, ", ") + ", " + xff
		}
		exp.Set("X-Forwarded-For", xff)
		wantHost := fmt.Sprintf("b%d.test", ai)
		if !retry {
			wantHost = "b0.test"
		}
		if bl.transparent {
			exp.Set("X-Real-Ip", clientIP)
			exp.Set("X-Forwarded-Proto", "http")
			exp.Set("Host", hostHdr)
			wantHost = hostHdr
			// the port the client addressed: the one in its Host header, else the default of the scheme (plain HTTP here)
			port := "80"
			if _, p, err := net.SplitHostPort(hostHdr); err == nil {
				port = p
			}
			exp.Set("X-Forwarded-Port", port)
		}
		applyRules(exp, bl.up)
		skip := map[string]bool{"Content-Length": true, "Transfer-Encoding": true}
		if a, b := multiset(g.header, skip), multiset(exp, skip); !reflect.DeepEqual(a, b) {
			k := "request-headers"
			for _, l := range a {
				n := strings.SplitN(l, ":", 2)[0]
				if named[n] {
					k = "connection-named-header-forwarded"
				}
				for _, h := range hopList {
					if n == h {
						k = "hop-by-hop-header-forwarded"
					}
				}
			}
			if retry && ai > 0 {
				k += "-on-retry"
			}
			add(k, fmt.Sprintf("%srequest headers %v want %v", tag, a, b))
		}
		if g.host != wantHost {
			add("host", fmt.Sprintf("%sHost %q want %q", tag, g.host, wantHost))
		}
		if g.closeAfter {
			// (the client's "Connection: close", or its HTTP/1.0, is about the client's connection)
			add("hop-by-hop-header-forwarded", tag+"the upstream request is marked Close: the transport sends the hop-by-hop header `Connection: close` to the backend")
		}
	}
	// ---- response ----
	if len(got) == wantAttempts {
		if rec.Status != rp.status {
			add("status", fmt.Sprintf("client status %d want %d (returned %d, %v)", rec.Status, rp.status, status, perr))
		}
		wantBody := body(rp.bodyLen, 'R')
		if rp.status == 204 || rp.status == 304 {
			wantBody = nil
		}
		if !bytes.Equal(rec.Body.Bytes(), wantBody) {
			add("response-body", fmt.Sprintf("client body %d bytes want %d", rec.Body.Len(), len(wantBody)))
		}
		bnamed := map[string]bool{}
		exp := http.Header{}
		for _, kv := range rp.hdrs {
			if kv[0] == "Connection" {
				for _, f := range strings.Split(kv[1], ",") {
					bnamed[http.CanonicalHeaderKey(strings.TrimSpace(f))] = true
				}
			}
		}
		for _, kv := range rp.hdrs {
			k := http.CanonicalHeaderKey(kv[0])
			hop := bnamed[k]
			for _, h := range hopList {
				if k == h {
					hop = true
				}
			}
			if !hop {
				exp.Add(k, kv[1])
			}
		}
		applyRules(exp, bl.down)
		skip := map[string]bool{"Content-Type": true, "Trailer": true, "Content-Length": true}
		for k := range rec.Snap {
			if strings.HasPrefix(k, http.TrailerPrefix) {
				skip[k] = true
			}
		}
		if a, b := multiset(rec.Snap, skip), multiset(exp, skip); !reflect.DeepEqual(a, b) {
			k := "response-headers"
			for _, l := range a {
				n := strings.SplitN(l, ":", 2)[0]
				if bnamed[n] {
					k = "connection-named-response-header-relayed"
				}
			}
			add(k, fmt.Sprintf("response headers %v want %v", a, b))
		}
		wantTr := map[string]string{}
		switch rp.trailers {
		case "announced":
			wantTr["X-Trail"] = "tv"
		case "unannounced":
			wantTr["X-Late"] = "lv"
		case "announced-three":
			wantTr["X-Trail"], wantTr["X-Trail-B"], wantTr["X-Trail-C"] = "tv", "tb", "tc"
		case "announced-and-unannounced":
			wantTr["X-Trail"], wantTr["X-Trail-B"], wantTr["X-Late"] = "tv", "tb", "lv"
		}
		gotTr := map[string]string{}
		for k, v := range rec.Trailer {
			gotTr[k] = strings.Join(v, ",")
		}
		if !reflect.DeepEqual(gotTr, wantTr) {
			add("trailers", fmt.Sprintf("trailers %v want %v", gotTr, wantTr))
		}
	}
	if len(diffs) > 0 {
		var kinds []string
		for k := range sigKinds {
			kinds = append(kinds, k)
		}
		sort.Strings(kinds)
		rep.Violation("C04/"+strings.Join(kinds, "+"), strings.Join(diffs, "; "), c04case{block, reqDesc, replyDesc, strings.Join(diffs, "; ")})
	}
	cl := "relay"
	if retry {
		cl = "relay-with-retry"
	}
	rep.Class(fmt.Sprintf("%s/%s/body=%d/reply=%d", cl, rq.method, rq.bodyLen, rp.status))
}

// applyRules interprets header_upstream / header_downstream rules (one per line) on h:
// "+Name value" adds, "-Name" removes, "Name regexp replacement" rewrites existing values, "Name value" sets.
func applyRules(h http.Header, rules string) {
	if rules == "" {
		return
	}
	for _, r := range strings.Split(rules, "\n") {
		f := strings.Fields(r)
		switch {
		case strings.HasPrefix(f[0], "+"):
			h.Add(f[0][1:], f[1])
		case strings.HasPrefix(f[0], "-"):
			h.Del(f[0][1:])
		case len(f) == 3:
			k := http.CanonicalHeaderKey(f[0])
			for i, v := range h[k] {
				h[k][i] = strings.ReplaceAll(v, f[1], f[2])
			}
		default:
			h.Set(f[0], f[1])
		}
	}
}

func main() {
	rep := kit.NewReport("C04", "exploration",
		"every pair of dimensions fully crossed (others at their default) over: method x5, path spelling x5, query x3, 12 header multisets, body length x6, framing x2, base path x3, target query x2, without x2, transparent x2, header_upstream rule x7, header_downstream rule x9, reply status x4, reply headers x4, reply body x3, trailers x5 (none, one or three announced, unannounced, both); plus the retry scenario (first backend fails after reading half the body) over base path x body x framing x header rules; upstream request observed by a recording transport and client response by the strict writer, compared field by field; distinct_nontrivial = outcome classes")
	kit.Init()
	kit.Log.Off.Store(true)
	methods := []string{"GET", "POST", "PUT", "DELETE", "PATCH"}
	paths := []string{"/api/x", "/api/a%2Fb", "/api//x", "/api/x%20y", "/api"}
	queries := []string{"", "q=1", "a=b&a=c"}
	hdrSets := [][]string{
		nil,
		{"X-A: 1"},
		{"X-A: 1", "X-A: 2"},
		{"Connection: close"},
		{"Connection: X-Hop", "X-Hop: v"},
		{"Connection: X-Hop", "Connection: X-Hop2", "X-Hop: v", "X-Hop2: w"},
		{"Keep-Alive: timeout=5", "Te: trailers", "Upgrade: h2c", "Proxy-Authorization: Basic x"},
		{"X-Forwarded-For: 9.9.9.9"},
		{"X-Forwarded-For: 9.9.9.9", "X-Forwarded-For: 8.8.8.8"},
		{"Authorization: Bearer t", "Cookie: a=b"},
		{"Connection: keep-alive, X-Hop", "X-Hop: v", "X-A: 1"},
		{"Accept-Encoding: gzip", "User-Agent: ua"},
		// a field named in Connection by a token in another letter case than the field's line
		{"Connection: x-hop", "X-Hop: v", "X-A: 1"},
		{"Connection: CLOSE, x-HOP", "x-hop: v"},
		// hop-by-hop fields whose first value is empty
		{"Keep-Alive:", "Keep-Alive: timeout=5"},
		{"Proxy-Authorization:", "Proxy-Authorization: Basic x", "X-A: 1"},
		{"Upgrade:", "Te:"},
	}
	bodyLens := []int{0, 1, 32767, 32768, 32769, 98311}
	framings := []bool{false, true}
	bases := []string{"", "/base", "/base/"}
	tqueries := []string{"", "t=1"}
	withouts := []string{"", "/api"}
	transp := []bool{false, true}
	// (the last one: a replacement whose result still matches its own pattern, so applying it twice shows)
	ups := []string{"", "X-Up set", "+X-A added", "-X-A", "X-A 1 one", "+X-A added\n+X-A again", "X-A 1 11"}
	// (the last two: a rule for a hop-by-hop field, and one for a field the backend names in its Connection header:
	// the configured value is the proxy's own and reaches the client)
	downs := []string{"", "X-Down set", "+X-B added", "-X-B", "X-B 1 one", "+X-B added\n+X-B again", "Alt-Svc h2", "+X-BHop edge", "X-B 1 11"}
	statuses := []int{200, 204, 404, 500}
	rhdrs := [][][2]string{
		{{"X-B", "1"}},
		{{"Set-Cookie", "a=1"}, {"Set-Cookie", "b=2"}, {"X-B", "1"}},
		{{"Connection", "X-BHop"}, {"X-BHop", "v"}, {"Keep-Alive", "timeout=1"}},
		{{"Server", "backend"}, {"X-B", "1"}, {"X-B", "21"}},
	}
	rbodies := []int{0, 1, 65537}
	trailers := []string{"", "announced", "unannounced", "announced-three", "announced-and-unannounced"}
	remotes := []string{"", "[2001:db8::1]:4242", "[fe80::1%eth0]:80", "203.0.113.9:1"}
	dims := []int{len(methods), len(paths), len(queries), len(hdrSets), len(bodyLens), len(framings), len(bases), len(tqueries), len(withouts), len(transp), len(ups), len(downs), len(statuses), len(rhdrs), len(rbodies), len(trailers), len(remotes)}
	def := make([]int, len(dims))
	def[0] = 1 // POST
	build := func(ix []int) (reqSpec, blockSpec, replySpec) {
		// (the Host header varies with the client address: a name, an IPv6 literal without a port, a name and an IPv6 literal with one)
		rq := reqSpec{methods[ix[0]], paths[ix[1]], queries[ix[2]], hdrSets[ix[3]], bodyLens[ix[4]], framings[ix[5]], remotes[ix[16]], []string{"", "[2001:db8::1]", "client.test:8080", "[::1]:8443"}[ix[16]]}
		bl := blockSpec{bases[ix[6]], tqueries[ix[7]], withouts[ix[8]], transp[ix[9]], ups[ix[10]], downs[ix[11]], 1}
		rp := replySpec{statuses[ix[12]], rhdrs[ix[13]], rbodies[ix[14]], trailers[ix[15]]}
		if rq.method == "GET" || rq.method == "DELETE" {
			rq.bodyLen, rq.chunked = 0, false
		}
		if rp.status == 204 {
			rp.bodyLen = 0
		}
		return rq, bl, rp
	}
	type job struct{ ix []int }
	var jobs []job
	seenJob := map[string]bool{}
	for a := 0; a < len(dims); a++ {
		for b := a + 1; b < len(dims); b++ {
			for va := 0; va < dims[a]; va++ {
				for vb := 0; vb < dims[b]; vb++ {
					ix := append([]int{}, def...)
					ix[a], ix[b] = va, vb
					k := fmt.Sprint(ix)
					if !seenJob[k] {
						seenJob[k] = true
						jobs = append(jobs, job{ix})
					}
				}
			}
		}
	}
	// every triple of values of every three dimensions (3-wise covering, complete)
	for a := 0; a < len(dims); a++ {
		for b := a + 1; b < len(dims); b++ {
			for c := b + 1; c < len(dims); c++ {
				for va := 0; va < dims[a]; va++ {
					for vb := 0; vb < dims[b]; vb++ {
						for vc := 0; vc < dims[c]; vc++ {
							ix := append([]int{}, def...)
							ix[a], ix[b], ix[c] = va, vb, vc
							if k := fmt.Sprint(ix); !seenJob[k] {
								seenJob[k] = true
								jobs = append(jobs, job{ix})
							}
						}
					}
				}
			}
		}
	}
	if rep.Thorough() {
		// full products of the groups of dimensions that meet in one piece of code:
		// target construction (path x query x base x target query x without), header handling (headers x transparent x upstream rule x client address),
		// request body (method x length x framing x headers), reply (status x headers x body x trailers x downstream rule)
		for _, grp := range [][]int{{1, 2, 6, 7, 8}, {3, 9, 10, 16}, {0, 4, 5, 3}, {12, 13, 14, 15, 11}} {
			var rec func(k int, ix []int)
			rec = func(k int, ix []int) {
				if k == len(grp) {
					if key := fmt.Sprint(ix); !seenJob[key] {
						seenJob[key] = true
						jobs = append(jobs, job{append([]int{}, ix...)})
					}
					return
				}
				for v := 0; v < dims[grp[k]]; v++ {
					ix[grp[k]] = v
					rec(k+1, ix)
				}
			}
			rec(0, append([]int{}, def...))
		}
	}
	rep.Set("cases", len(jobs))
	kit.Parallel(len(jobs), func(i int) bool {
		rq, bl, rp := build(jobs[i].ix)
		run(rep, rq, bl, rp, false)
		return true
	})
	// retry scenario
	for _, base := range bases {
		for _, bodyLen := range []int{0, 1, 32769, 98311} {
			for _, ch := range framings {
				for _, up := range ups {
					for _, wo := range withouts {
						for _, tq := range tqueries {
							rq := reqSpec{"POST", "/api/x", "q=1", []string{"X-A: 1", "Connection: X-Hop", "X-Hop: v"}, bodyLen, ch, "", ""}
							bl := blockSpec{base, tq, wo, false, up, "", 2}
							run(rep, rq, bl, replySpec{200, [][2]string{{"X-B", "1"}}, 5, ""}, true)
						}
					}
				}
			}
		}
	}
	rep.Sample(map[string]interface{}{"upstream_block": "proxy /api http://b0.test/base?t=1 {\n\twithout /api\n\theader_upstream +X-A added\n}", "request": "POST /api/a%2Fb?q=1 with Connection: X-Hop, X-Hop: v, 32 769-byte chunked body", "backend_reply": "404 with duplicate Set-Cookie, 65 537-byte body, unannounced trailer"})
	rep.Finish()
}
