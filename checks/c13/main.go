// C13 — FastCGI requests and responses cross the wire intact.
package main

import (
	"bytes"
	"encoding/binary"
	"fmt"
	"io"
	"net"
	"net/http"
	"net/http/fcgi"
	"os"
	"path/filepath"
	"sort"
	"strings"
	"sync"
	"sync/atomic"

	"verif/internal/kit"
)

// ---- reference responder for the request direction: Go's net/http/fcgi child ----

type seen struct {
	method string
	header http.Header
	env    map[string]string
	body   []byte
	uri    string
}

var (
	lastMu sync.Mutex
	last   *seen
)

func refResponder(w http.ResponseWriter, r *http.Request) {
	b, _ := io.ReadAll(r.Body)
	lastMu.Lock()
	last = &seen{method: r.Method, header: r.Header.Clone(), env: fcgi.ProcessEnv(r), body: b, uri: r.URL.RequestURI()}
	lastMu.Unlock()
	w.Header().Set("Content-Type", "text/plain")
	fmt.Fprintf(w, "RESPONDER-OK %s", fcgi.ProcessEnv(r)["DOCUMENT_URI"])
}

// ---- scripted byte-level responder for the response direction (own codec) ----

type recSpec struct {
	typ     byte // 6 stdout, 7 stderr
	content []byte
	padding int
}

var currentScript atomic.Pointer[[]recSpec]

func writeRec(w io.Writer, typ byte, id uint16, content []byte, padding int) {
	h := make([]byte, 8)
	h[0] = 1
	h[1] = typ
	binary.BigEndian.PutUint16(h[2:], id)
	binary.BigEndian.PutUint16(h[4:], uint16(len(content)))
	h[6] = byte(padding)
	w.Write(h)
	w.Write(content)
	w.Write(make([]byte, padding))
}

func scriptedResponder(ln net.Listener) {
	for {
		c, err := ln.Accept()
		if err != nil {
			return
		}
		go func(c net.Conn) {
			defer c.Close()
			var id uint16
			// read the request: records until an empty stdin (type 5) record
			for {
				h := make([]byte, 8)
				if _, err := io.ReadFull(c, h); err != nil {
					return
				}
				n := int(binary.BigEndian.Uint16(h[4:])) + int(h[6])
				id = binary.BigEndian.Uint16(h[2:])
				buf := make([]byte, n)
				if _, err := io.ReadFull(c, buf); err != nil {
					return
				}
				if h[1] == 5 && binary.BigEndian.Uint16(h[4:]) == 0 {
					break
				}
			}
			var out bytes.Buffer
			closed := false
			for _, r := range *currentScript.Load() {
				writeRec(&out, r.typ, id, r.content, r.padding)
				closed = closed || (r.typ == 6 && len(r.content) == 0)
			}
			if !closed {
				writeRec(&out, 6, id, nil, 0) // end of stdout
			}
			end := make([]byte, 8)
			writeRec(&out, 3, id, end, 0) // end request
			c.Write(out.Bytes())
		}(c)
	}
}

type c13case struct {
	Request string `json:"request"`
	Script  string `json:"responder_script,omitempty"`
	Want    string `json:"want"`
	Got     string `json:"got"`
}

func lenLabel(n int) string { return fmt.Sprint(n) }

func main() {
	rep := kit.NewReport("C13", "exploration",
		"request direction: header sets with name/value lengths in {1,126,127,128,129} and one pair sized to the 65 499/65 500 record boundary, totals crossing one and two records, x body lengths {0,1,65499,65500,65501,131000,131001}, announced by Content-Length or sent chunked, x paths x env entries, received by Go's net/http/fcgi child and compared with an independent derivation; response direction: header block + body {0,1,8192,70000} cut into <=3 stdout records at every combination of 12 cut points x padding {0,7,255} x a stderr record at every position x Status present/absent, plus maximal records (65535 + padding) and runs of 2..1000 stderr records before, inside and after the header block, served by a byte-level responder with its own codec; static-file fallback never used for existing script files in any letter case; distinct_nontrivial = outcome classes")
	kit.Init()
	kit.Log.Off.Store(true)
	base := kit.TempDir("c13")
	defer os.RemoveAll(base)
	root := filepath.Join(base, "root")
	fileTok := map[string]string{}
	for _, f := range []string{"i.php", "U.PHP", "dir/index.php", "plain.txt", "sub/j.php"} {
		fileTok[f] = kit.Token(f)
		kit.WriteFile(root, f, "<?php STATIC-SOURCE "+fileTok[f]+" ?>")
	}
	sock1 := filepath.Join(base, "ref.sock")
	ln1, err := net.Listen("unix", sock1)
	if err != nil {
		rep.Broken("listen: %v", err)
	}
	go fcgi.Serve(ln1, http.HandlerFunc(refResponder))
	sock2 := filepath.Join(base, "scr.sock")
	ln2, err := net.Listen("unix", sock2)
	if err != nil {
		rep.Broken("listen: %v", err)
	}
	def := []recSpec{{6, []byte("Content-Type: text/plain\r\n\r\nSCRIPTED-DEFAULT"), 0}}
	currentScript.Store(&def)
	go scriptedResponder(ln2)
	defer ln1.Close()
	defer ln2.Close()

	errLog = filepath.Join(base, "errors.log")
	// the responder sees the site under another directory than casket does (a container, a chroot)
	const backendRoot = "/srv/backend-root"
	cf := fmt.Sprintf("a.test:8080 {\n\troot %s\n\terrors "+errLog+"\n\tfastcgi /scripted unix:%s\n\tfastcgi / unix:%s {\n\t\text .php\n\t\tsplit .php\n\t\tindex index.php\n\t\tenv FOO bar\n\t\tenv DYN {host}-{method}-{path}\n\t\troot "+backendRoot+"\n\t}\n}\n"+
		// a second site whose address carries a path: its rule sees the request path with that prefix trimmed
		"a.test:8080/blog {\n\troot %s\n\tfastcgi / unix:%s {\n\t\text .php\n\t\tsplit .php\n\t\tindex index.php\n\t\troot "+backendRoot+"\n\t}\n}\n", root, sock2, sock1, root, sock1)
	l, err := kit.Load(cf, filepath.Join(base, "Casketfile"))
	if err != nil {
		rep.Broken("load: %v", err)
	}
	defer l.Close()
	srv := l.Server("")

	// ---------- request direction ----------
	lens := []int{1, 126, 127, 128, 129}
	mk := func(n int, c byte) string { return strings.Repeat(string(c), n) }
	type hdr struct{ name, val string }
	var hdrSets [][]hdr
	for _, nl := range lens {
		for _, vl := range lens {
			hdrSets = append(hdrSets, []hdr{{strings.ToUpper(mk(1, 'n')) + mk(nl-1, 'n'), mk(vl, 'v')}})
		}
	}
	// a pair whose encoded size (4+4+len(HTTP_name)+len(value)) hits 65499 / 65500 / 65501, alone and with neighbours
	// (the name's length takes one byte and the value's four: the pair is encoded in 5+len(HTTP_X_BIG)+len(value) bytes)
	for _, total := range []int{65496, 65497, 65498, 65499, 65500} {
		name := "X-Big"
		vl := total - 5 - len("HTTP_X_BIG")
		hdrSets = append(hdrSets, []hdr{{name, mk(vl, 'b')}})
		hdrSets = append(hdrSets, []hdr{{name, mk(vl, 'b')}, {"X-After", mk(127, 'a')}, {"X-After2", mk(128, 'c')}})
	}
	// many medium pairs so that the total crosses one and two record boundaries
	for _, count := range []int{520, 1040} {
		var hs []hdr
		for i := 0; i < count; i++ {
			hs = append(hs, hdr{fmt.Sprintf("X-M%04d", i), mk(100+i%30, 'm')})
		}
		hdrSets = append(hdrSets, hs)
	}
	bodyLens := []int{0, 1, 65499, 65500, 65501, 131000, 131001}
	paths := []struct{ p, script, pathInfo string }{
		{"/i.php", "/i.php", ""}, {"/i.php/extra/info", "/i.php", "/extra/info"}, {"/dir/", "/dir/index.php", ""}, {"/sub/j.php?x=1&y=2", "/sub/j.php", ""}, {"/U.PHP", "/U.PHP", ""},
		// the split string occurs twice, first in another letter case: the script ends at the first occurrence
		// an absolute-form request target (what a client configured with a proxy sends): the variables are those of its path and query
		{"http://a.test:8080/i.php/extra/info?abs=1", "/i.php", "/extra/info"},
		{"/U.PHP/pic.php", "/U.PHP", "/pic.php"}, {"/U.PHP/x/view.php/z", "/U.PHP", "/x/view.php/z"}, {"/i.php/next.PHP", "/i.php", "/next.PHP"},
	}
	for hi, hs := range hdrSets {
		for _, bl := range bodyLens {
			if len(hs) > 100 && bl > 1 && bl != 65500 {
				continue
			}
			for pi, pp := range paths {
				// the body announced by Content-Length, or sent without a length in chunks of 60 000 bytes (framing 1; few header sets)
				for framing := 0; framing < 2; framing++ {
					if (hi > 30 || bl > 1) && pi > 1 && !(strings.HasPrefix(pp.p, "http://") && hi == 0 && bl <= 65500) {
						continue
					}
					if framing == 1 && (hi > 3 || pi > 1) {
						continue
					}
					body := bytes.Repeat([]byte("0123456789abcdef"), bl/16+1)[:bl]
					var raw strings.Builder
					method := "POST"
					fmt.Fprintf(&raw, "%s %s HTTP/1.1\r\nHost: a.test:8080\r\nContent-Type: application/octet-stream\r\n", method, pp.p)
					for _, h := range hs {
						fmt.Fprintf(&raw, "%s: %s\r\n", h.name, h.val)
					}
					if framing == 0 {
						fmt.Fprintf(&raw, "Content-Length: %d\r\n\r\n", bl)
						raw.Write(body)
					} else {
						raw.WriteString("Transfer-Encoding: chunked\r\n\r\n")
						for rest := body; len(rest) > 0; {
							n := len(rest)
							if n > 60000 {
								n = 60000
							}
							fmt.Fprintf(&raw, "%x\r\n", n)
							raw.Write(rest[:n])
							raw.WriteString("\r\n")
							rest = rest[n:]
						}
						raw.WriteString("0\r\n\r\n")
					}
					lastMu.Lock()
					last = nil
					lastMu.Unlock()
					rec, pv, err := kit.Serve(srv, raw.String())
					rep.Eval(1)
					if err != nil {
						rep.Broken("request: %v", err)
					}
					short := fmt.Sprintf("POST %s with %d extra headers (first %s: %d bytes) and a %d-byte body%s", pp.p, len(hs), hs[0].name, len(hs[0].val), bl, map[int]string{0: "", 1: " sent chunked"}[framing])
					if pv != nil {
						rep.Violation("C13/request/panic", fmt.Sprint(pv), c13case{short, "", "", ""})
						continue
					}
					lastMu.Lock()
					got := last
					lastMu.Unlock()
					class := fmt.Sprintf("request/hdrs=%s/body=%d%s", map[bool]string{true: "many", false: "few"}[len(hs) > 3], bl, map[int]string{0: "", 1: "/chunked"}[framing])
					if got == nil {
						kind := "responder-got-no-valid-request"
						if strings.Contains(rec.Body.String(), "STATIC-SOURCE") {
							kind = "script-source-served-as-static-text"
						}
						rep.Violation("C13/request/"+kind, fmt.Sprintf("status %d, body %.80q", rec.Status, rec.Body.String()), c13case{short, "", "responder receives the request", fmt.Sprintf("status %d", rec.Status)})
						continue
					}
					var diffs []string
					for _, h := range hs {
						if g := got.header.Get(h.name); g != h.val {
							diffs = append(diffs, fmt.Sprintf("header %s: got %d bytes, want %d", h.name, len(g), len(h.val)))
						}
					}
					if !bytes.Equal(got.body, body) {
						diffs = append(diffs, fmt.Sprintf("body: got %d bytes, want %d (equal prefix %d)", len(got.body), len(body), commonPrefix(got.body, body)))
					}
					if got.method != method {
						diffs = append(diffs, "method "+got.method)
					}
					// (net/http/fcgi consumes SCRIPT_NAME and PATH_INFO; their values are visible through
					// DOCUMENT_URI, SCRIPT_FILENAME and PATH_TRANSLATED)
					// REQUEST_URI is the request target in origin form (path and query as sent)
					wantURI := pp.p
					if i := strings.Index(wantURI, "://"); i >= 0 {
						wantURI = wantURI[i+3:]
						wantURI = wantURI[strings.Index(wantURI, "/"):]
					}
					// (net/http/fcgi builds the child's request URL from REQUEST_URI and consumes the variable)
					if got.uri != wantURI {
						diffs = append(diffs, fmt.Sprintf("REQUEST_URI %q want %q", got.uri, wantURI))
					}
					if got.env["DOCUMENT_URI"] != pp.script {
						diffs = append(diffs, fmt.Sprintf("DOCUMENT_URI %q want %q", got.env["DOCUMENT_URI"], pp.script))
					}
					wantPT := ""
					if pp.pathInfo != "" {
						wantPT = filepath.Join(backendRoot, pp.pathInfo)
					}
					if got.env["PATH_TRANSLATED"] != wantPT {
						diffs = append(diffs, fmt.Sprintf("PATH_TRANSLATED %q want %q", got.env["PATH_TRANSLATED"], wantPT))
					}
					// (the placeholders are expanded anew for every request: the path differs between requests)
					if got.env["FOO"] != "bar" || got.env["DYN"] != "a.test:8080-POST-"+strings.SplitN(wantURI, "?", 2)[0] {
						diffs = append(diffs, fmt.Sprintf("configured env FOO=%q DYN=%q", got.env["FOO"], got.env["DYN"]))
					}
					if got.env["SCRIPT_FILENAME"] != filepath.Join(backendRoot, pp.script) || got.env["DOCUMENT_ROOT"] != backendRoot {
						diffs = append(diffs, fmt.Sprintf("SCRIPT_FILENAME %q", got.env["SCRIPT_FILENAME"]))
					}
					if rec.Status != 200 || !strings.HasPrefix(rec.Body.String(), "RESPONDER-OK") {
						diffs = append(diffs, fmt.Sprintf("client got %d %.40q", rec.Status, rec.Body.String()))
					}
					for f, t := range fileTok {
						if strings.Contains(rec.Body.String(), t) {
							diffs = append(diffs, "static source of "+f+" returned")
						}
					}
					if len(diffs) > 0 {
						kind := "params-or-body-damaged"
						if strings.Contains(strings.Join(diffs, ";"), "body:") {
							kind = "body-damaged"
						}
						rep.Violation("C13/request/"+kind, strings.Join(diffs, "; "), c13case{short, "", "exact headers, env and body", strings.Join(diffs, "; ")})
					}
					rep.Class(class)
				}
			}
		}
	}
	// the site with a path prefix: the script is located below the rule's root without the prefix
	for _, tc := range []struct{ target, script, info string }{{"/blog/i.php", "/i.php", ""}, {"/blog/i.php/extra/info?x=1", "/i.php", "/extra/info"}, {"/blog/sub/j.php", "/sub/j.php", ""}, {"/blog/dir/", "/dir/index.php", ""}} {
		raw := fmt.Sprintf("POST %s HTTP/1.1\r\nHost: a.test:8080\r\nContent-Length: 5\r\n\r\nhello", tc.target)
		lastMu.Lock()
		last = nil
		lastMu.Unlock()
		rec, pv, _ := kit.Serve(srv, raw)
		rep.Eval(1)
		lastMu.Lock()
		got := last
		lastMu.Unlock()
		short := "POST " + tc.target + " on the site a.test:8080/blog"
		switch {
		case pv != nil:
			rep.Violation("C13/request/panic", fmt.Sprint(pv), c13case{short, "", "", ""})
		case got == nil:
			rep.Violation("C13/request/responder-got-no-valid-request/site-with-path-prefix", fmt.Sprintf("status %d, body %.80q", rec.Status, rec.Body.String()), c13case{short, "", "responder receives the request", fmt.Sprintf("status %d", rec.Status)})
		default:
			var diffs []string
			if got.env["SCRIPT_FILENAME"] != filepath.Join(backendRoot, tc.script) || got.env["DOCUMENT_ROOT"] != backendRoot {
				diffs = append(diffs, fmt.Sprintf("SCRIPT_FILENAME %q DOCUMENT_ROOT %q want %q under %q", got.env["SCRIPT_FILENAME"], got.env["DOCUMENT_ROOT"], filepath.Join(backendRoot, tc.script), backendRoot))
			}
			wantPT := ""
			if tc.info != "" {
				wantPT = filepath.Join(backendRoot, tc.info)
			}
			if got.env["PATH_TRANSLATED"] != wantPT {
				diffs = append(diffs, fmt.Sprintf("PATH_TRANSLATED %q want %q", got.env["PATH_TRANSLATED"], wantPT))
			}
			if string(got.body) != "hello" {
				diffs = append(diffs, fmt.Sprintf("body %q", got.body))
			}
			if len(diffs) > 0 {
				rep.Violation("C13/request/params-or-body-damaged/site-with-path-prefix", strings.Join(diffs, "; "), c13case{short, "", "the script below the rule's root, without the site's path prefix", strings.Join(diffs, "; ")})
			}
		}
		rep.Class("request/site-with-path-prefix")
	}
	rep.Sample(map[string]interface{}{"direction": "request", "example": "POST /i.php/extra/info with X-Big of 65 478 bytes (encoded pair = 65 500) and a 65 501-byte body"})

	// existing script files in any letter case are never served as static text
	// (the last three: letters whose lower-case form has another length in UTF-8 - Kelvin sign, dotted capital I, Ⱥ)
	for _, p := range []string{"/i.php", "/I.PHP", "/i.PhP", "/U.PHP", "/u.php", "/dir/", "/dir/index.php", "/DIR/INDEX.PHP", "/i.php.", "/i.php%20", "/sub/../i.php", "//i.php", "/i.php/", "/scripted/../i.php",
		"/%E2%84%AA/i.php/info", "/%C4%B0%C4%B0%C4%B0%C4%B0/i.php/info", "/%C8%BA%C8%BA%C8%BA%C8%BA%C8%BA.php"} {
		for _, m := range []string{"GET", "HEAD", "POST"} {
			raw := kit.Get(m, p, "a.test:8080", "Content-Length: 0")
			rq, err := kit.Req(raw)
			if err != nil {
				continue
			}
			panicsBefore := kit.Log.Panics.Load()
			newErrLog()
			rec, pv, _ := kit.ServeReq(srv, rq)
			rep.Eval(1)
			if pv != nil {
				rep.Violation("C13/static-fallback/panic", fmt.Sprint(pv), c13case{raw, "", "", ""})
				continue
			}
			if el := newErrLog(); kit.Log.Panics.Load() != panicsBefore || strings.Contains(el, "[PANIC") {
				rep.Violation("C13/script-path/panic-in-handler", fmt.Sprintf("%s %s: a [PANIC] line was logged (the handler panicked; only the server's top-level recover contained it)", m, p), c13case{raw, "", "the responder's reply or an error", fmt.Sprintf("%d", rec.Status)})
			}
			for f, t := range fileTok {
				if strings.Contains(rec.Body.String(), t) && strings.HasSuffix(strings.ToLower(f), ".php") {
					rep.Violation("C13/script-source-served-as-static-text", fmt.Sprintf("%s %s returned the source of %s", m, p, f), c13case{raw, "", "the responder's reply or an error", fmt.Sprintf("%d %.60q", rec.Status, rec.Body.String())})
				}
			}
			rep.Class("script-path-spelling")
		}
	}

	// ---------- response direction ----------
	type respDef struct {
		withStatus bool
		body       []byte
	}
	var defs []respDef
	for _, ws := range []bool{true, false} {
		for _, bl := range []int{0, 1, 8192} {
			defs = append(defs, respDef{ws, bytes.Repeat([]byte("response-body-"), bl/14+1)[:bl]})
		}
	}
	for di, d := range defs {
		head := "Content-Type: text/x-verif\r\nX-R: v1\r\nX-R: v2\r\nSet-Cookie: a=b\r\n"
		wantStatus := 200
		if d.withStatus {
			head = "Status: 201 Created\r\n" + head
			wantStatus = 201
		}
		head += "\r\n"
		full := append([]byte(head), d.body...)
		// candidate cut points: inside the header block, around CRLFCRLF, inside the body
		cand := map[int]bool{}
		for _, c := range []int{1, 7, len("Status: 2"), len(head) / 2, len(head) - 4, len(head) - 3, len(head) - 2, len(head) - 1, len(head), len(head) + 1, len(head) + len(d.body)/2, len(full) - 1} {
			if c > 0 && c < len(full) {
				cand[c] = true
			}
		}
		var cuts []int
		for c := range cand {
			cuts = append(cuts, c)
		}
		sort.Ints(cuts)
		var cutSets [][]int
		cutSets = append(cutSets, nil)
		for i := range cuts {
			cutSets = append(cutSets, []int{cuts[i]})
			for j := i + 1; j < len(cuts); j++ {
				cutSets = append(cutSets, []int{cuts[i], cuts[j]})
				if rep.Thorough() {
					for k := j + 1; k < len(cuts); k++ {
						cutSets = append(cutSets, []int{cuts[i], cuts[j], cuts[k]})
					}
				}
			}
		}
		for _, cs := range cutSets {
			for _, pad := range []int{0, 7, 255} {
				nrec := len(cs) + 1
				// stderr record before stdout record errPos; nrec: after the last one; nrec+1: after the empty record
				// that ends stdout; errEnd: the stderr stream is ended by an empty record of its own, as the
				// specification asks of a responder that wrote to it
				for errPos := -1; errPos <= nrec+1; errPos++ {
					for _, errEnd := range []bool{false, true} {
						if errEnd && errPos < 0 {
							continue
						}
						var script []recSpec
						prev := 0
						pieces := append(append([]int{}, cs...), len(full))
						for i, c := range pieces {
							if errPos == i {
								script = append(script, recSpec{7, []byte("STDERR-TEXT-ONLY-FOR-THE-LOG"), pad})
							}
							script = append(script, recSpec{6, full[prev:c], pad})
							prev = c
						}
						if errPos == nrec {
							script = append(script, recSpec{7, []byte("STDERR-TEXT-ONLY-FOR-THE-LOG"), pad})
						}
						if errPos == nrec+1 {
							script = append(script, recSpec{6, nil, pad}, recSpec{7, []byte("STDERR-TEXT-ONLY-FOR-THE-LOG"), pad})
						}
						if errEnd {
							script = append(script, recSpec{7, nil, pad})
						}
						runScripted(rep, srv, script, wantStatus, d.body, errPos >= 0, fmt.Sprintf("def%d cuts=%v pad=%d stderr@%d stderr-ended=%v", di, cs, pad, errPos, errEnd))
					}
				}
			}
		}
	}
	// maximal records: 70000-byte body in records of up to 65535 content bytes with padding
	bigBody := bytes.Repeat([]byte("0123456789"), 15000)
	head := "Status: 201 Created\r\nContent-Type: text/x-verif\r\n\r\n"
	full := append([]byte(head), bigBody...)
	for _, first := range []int{65535, 65534, 65530, 65529, 65281, 65280, 60000} {
		for _, pad := range []int{0, 1, 2, 6, 7, 255} {
			var script []recSpec
			rest := full
			n := first
			for len(rest) > 0 {
				if n > len(rest) {
					n = len(rest)
				}
				script = append(script, recSpec{6, rest[:n], pad})
				rest = rest[n:]
				n = 65535
			}
			runScripted(rep, srv, script, 201, bigBody, false, fmt.Sprintf("big first=%d pad=%d", first, pad))
		}
	}
	// runs of stderr records: N in a row before the first stdout byte, between two halves of the header block, and inside the body
	{
		head := "Status: 201 Created\r\nContent-Type: text/x-verif\r\n\r\n"
		body := []byte("body-after-many-stderr-records")
		full := append([]byte(head), body...)
		for _, n := range []int{2, 3, 50, 99, 100, 101, 299, 300, 301, 1000} {
			for _, where := range []int{0, len(head) / 2, len(head) + 3} {
				var script []recSpec
				if where > 0 {
					script = append(script, recSpec{6, full[:where], 0})
				}
				for i := 0; i < n; i++ {
					script = append(script, recSpec{7, []byte("STDERR-TEXT-ONLY-FOR-THE-LOG"), 0})
				}
				script = append(script, recSpec{6, full[where:], 0})
				runScripted(rep, srv, script, 201, body, true, fmt.Sprintf("stderr-run n=%d after %d stdout bytes", n, where))
			}
		}
	}
	rep.Sample(map[string]interface{}{"direction": "response", "example": "header block + 8192-byte body cut after 'Status: 2' and one byte before the blank line, padding 255, stderr record between the two stdout records"})
	rep.Finish()
}

var (
	errLog    string
	errLogOff int64
)

// newErrLog returns what was appended to the error log since the last call.
func newErrLog() string {
	b, err := os.ReadFile(errLog)
	if err != nil {
		return ""
	}
	s := string(b[errLogOff:])
	errLogOff = int64(len(b))
	return s
}

func commonPrefix(a, b []byte) int {
	n := 0
	for n < len(a) && n < len(b) && a[n] == b[n] {
		n++
	}
	return n
}

func runScripted(rep *kit.Report, srv http.Handler, script []recSpec, wantStatus int, wantBody []byte, hasStderr bool, label string) {
	currentScript.Store(&script)
	raw := kit.Get("GET", "/scripted/x.php", "a.test:8080")
	rec, pv, _ := kit.Serve(srv, raw)
	rep.Eval(1)
	if pv != nil {
		rep.Violation("C13/response/panic", fmt.Sprint(pv), c13case{raw, label, "", ""})
		return
	}
	var diffs []string
	if rec.Status != wantStatus {
		diffs = append(diffs, fmt.Sprintf("status %d want %d", rec.Status, wantStatus))
	}
	if !bytes.Equal(rec.Body.Bytes(), wantBody) {
		diffs = append(diffs, fmt.Sprintf("body %d bytes want %d (equal prefix %d)", rec.Body.Len(), len(wantBody), commonPrefix(rec.Body.Bytes(), wantBody)))
	}
	if rec.Snap.Get("Content-Type") != "text/x-verif" {
		diffs = append(diffs, "Content-Type "+rec.Snap.Get("Content-Type"))
	}
	if strings.HasPrefix(label, "def") {
		if fmt.Sprint(rec.Snap.Values("X-R")) != "[v1 v2]" || rec.Snap.Get("Set-Cookie") != "a=b" {
			diffs = append(diffs, fmt.Sprintf("headers X-R=%v Set-Cookie=%q", rec.Snap.Values("X-R"), rec.Snap.Get("Set-Cookie")))
		}
	}
	if bytes.Contains(rec.Body.Bytes(), []byte("STDERR-TEXT")) {
		diffs = append(diffs, "stderr text in the client body")
	}
	logged := newErrLog()
	if hasStderr && !strings.Contains(logged, "STDERR-TEXT-ONLY-FOR-THE-LOG") {
		diffs = append(diffs, "the responder's stderr did not reach the error log")
	}
	if !hasStderr && strings.Contains(logged, "STDERR-TEXT") {
		diffs = append(diffs, "stderr text logged although none was sent")
	}
	if len(diffs) > 0 {
		kind := "response-damaged"
		if strings.HasPrefix(label, "big") {
			kind = "response-damaged/maximal-records"
		}
		rep.Violation("C13/response/"+kind, strings.Join(diffs, "; "), c13case{raw, label, "the responder's status, headers and body", strings.Join(diffs, "; ")})
	}
	cl := "response/records=" + fmt.Sprint(len(script))
	if hasStderr {
		cl += "/stderr"
	}
	rep.Class(cl)
}
