// C06 — TLS settings follow the SNI-matched site; no TLS/plaintext mixing.
package main

import (
	"crypto/tls"
	"fmt"
	"github.com/tmpim/casket/caskethttp/httpserver"
	"net"
	"net/http"
	"os"
	"path/filepath"
	"strings"
	"sync"
	"time"

	"verif/internal/kit"
)

type setting struct {
	name     string
	lines    string // inside tls block; CA is replaced by the CA file
	min, max uint16
	cipher   uint16 // 0 = default list
	auth     string // "", "require-verify", "request"
}

var settings = []setting{
	{"default", "", tls.VersionTLS12, tls.VersionTLS13, 0, ""},
	{"tls1.2-only", "protocols tls1.2 tls1.2", tls.VersionTLS12, tls.VersionTLS12, 0, ""},
	{"tls1.3-only", "protocols tls1.3", tls.VersionTLS13, tls.VersionTLS13, 0, ""},
	{"tls1.0-1.3", "protocols tls1.0 tls1.3", tls.VersionTLS10, tls.VersionTLS13, 0, ""},
	{"one-cipher", "ciphers ECDHE-ECDSA-AES256-GCM-SHA384", tls.VersionTLS12, tls.VersionTLS13, tls.TLS_ECDHE_ECDSA_WITH_AES_256_GCM_SHA384, ""},
	{"clients-verify", "clients CA", tls.VersionTLS12, tls.VersionTLS13, 0, "require-verify"},
	{"clients-request", "clients request", tls.VersionTLS12, tls.VersionTLS13, 0, "request"},
}

// (the last one is a site named by an IP literal: no client sends such a name in its hello, so it is reached only by Host)
var hostMenu = []string{"a.test", "b.a.test", "*.test", "*.a.test", "", "10.9.8.7"}
var snis = []string{"a.test", "A.TEST", "b.a.test", "c.test", "x.y.test", "nomatch.example", ""}

type clientRange struct {
	name     string
	min, max uint16
}

var ranges = []clientRange{{"1.0-1.1", tls.VersionTLS10, tls.VersionTLS11}, {"1.2", tls.VersionTLS12, tls.VersionTLS12}, {"1.3", tls.VersionTLS13, tls.VersionTLS13}, {"1.2-1.3", tls.VersionTLS12, tls.VersionTLS13}}

type site struct {
	host string
	set  setting
	idx  int
}

// refSite picks the site for an SNI name: exact, then fewest wildcard labels,
// then catch-all; -1 if the statement gives no expectation.
func refSite(sites []site, sni string) int {
	name := strings.ToLower(sni)
	for i, s := range sites {
		if s.host != "" && s.host == name && name != "" {
			return i
		}
	}
	if name != "" {
		labels := strings.Split(name, ".")
		for k := range labels {
			labels[k] = "*"
			cand := strings.Join(labels, ".")
			for i, s := range sites {
				if s.host == cand {
					return i
				}
			}
		}
	}
	for i, s := range sites {
		if s.host == "" {
			return i
		}
	}
	return -1
}

// refHostSite: the site that serves a Host header (same precedence; C01's rule).
func refHostSite(sites []site, host string) int { return refSite(sites, host) }

type c06case struct {
	Casketfile string `json:"casketfile"`
	SNI        string `json:"sni"`
	Client     string `json:"client_versions"`
	ClientCert bool   `json:"client_presents_certificate"`
	Host       string `json:"host_header,omitempty"`
	Got        string `json:"got"`
	Want       string `json:"want"`
}

func main() {
	rep := kit.NewReport("C06", "exploration",
		"site sets of <=3 hosts (third site: 3 settings in quick, all 7 in thorough) from {a.test, b.a.test, *.test, *.a.test, catch-all, an IP literal} x 7 per-site tls settings (version ranges, one cipher, client-certificate policies) x 7 SNI names x 4 client version ranges x client certificate yes/no, real crypto/tls handshakes over in-memory pipes against Server.TLSConfig, then a request with every site's name as Host header through Server.ServeHTTP; plus session tickets obtained under one site offered to another (6x6 client-certificate policies x TLS 1.2/1.3 x 3 client certificates x both orders), a client-CA file replaced between loads, and listener groups mixing TLS with plaintext sites and same-name sites with different settings (must be rejected); distinct_nontrivial = outcome classes")
	kit.Init()
	kit.Log.Off.Store(true)
	dir := kit.TempDir("c06")
	defer os.RemoveAll(dir)
	ca := kit.NewCA("verif CA")
	caFile := filepath.Join(dir, "ca.pem")
	os.WriteFile(caFile, ca.CertPEM, 0o644)
	_, _, clientPair := ca.Leaf(999, "client", nil, true)
	certs := map[string][2]string{}
	serialOf := map[string]int64{}
	for i, h := range hostMenu {
		cn := h
		names := []string{cn}
		if cn == "" {
			// the catch-all site can only answer for names its certificate covers; these are names no other site pattern matches
			cn = "catchall.test"
			names = []string{"catchall.test", "nomatch.example", "x.y.test"}
		}
		c, k := ca.WriteLeaf(dir, fmt.Sprintf("site%d", i), int64(100+i), cn, names)
		certs[h] = [2]string{c, k}
		serialOf[h] = int64(100 + i)
	}
	maxSites := 3
	type job struct{ sites []site }
	var jobs []job
	kit.Subsets(len(hostMenu), 1, maxSites, func(idx []int) {
		var rec func(k int, cur []site)
		rec = func(k int, cur []site) {
			if k == len(idx) {
				jobs = append(jobs, job{append([]site{}, cur...)})
				return
			}
			for _, st := range settings {
				if k == 2 && !rep.Thorough() && st.name != "default" && st.name != "clients-verify" && st.name != "tls1.3-only" {
					continue
				}
				rec(k+1, append(cur, site{hostMenu[idx[k]], st, k}))
			}
		}
		rec(0, nil)
	})
	rep.Set("site_sets", len(jobs))
	render := func(sites []site) string {
		var b strings.Builder
		for _, s := range sites {
			fmt.Fprintf(&b, "%s:8443 {\n\ttls %s %s", s.host, certs[s.host][0], certs[s.host][1])
			if s.set.lines != "" {
				fmt.Fprintf(&b, " {\n\t\t%s\n\t}", strings.Replace(s.set.lines, "CA", caFile, 1))
			}
			fmt.Fprintf(&b, "\n\theader / X-Site s%d\n\tstatus 204 /\n}\n", s.idx)
		}
		return b.String()
	}
	kit.Parallel(len(jobs), func(ji int) bool {
		if rep.Expired() {
			rep.Capped("deadline")
			return false
		}
		sites := jobs[ji].sites
		cf := render(sites)
		l, err := kit.Load(cf, filepath.Join(dir, "Casketfile"))
		if err != nil {
			rep.Broken("load: %v\n%s", err, cf)
		}
		defer l.Close()
		srv := l.Server("8443") // (a second server on :80 holds the synthesised redirect sites)
		if srv == nil || srv.Server.TLSConfig == nil {
			rep.Broken("no TLS config for %s", cf)
		}
		local := map[string]int64{}
		for _, sni := range snis {
			want := refSite(sites, sni)
			for _, cr := range ranges {
				for _, withCert := range []bool{true, false} {
					requested := false
					ccfg := &tls.Config{ServerName: sni, InsecureSkipVerify: true, MinVersion: cr.min, MaxVersion: cr.max,
						GetClientCertificate: func(*tls.CertificateRequestInfo) (*tls.Certificate, error) {
							requested = true
							if withCert {
								return &clientPair, nil
							}
							return &tls.Certificate{}, nil
						}}
					c1, c2 := net.Pipe()
					sconn := tls.Server(c2, srv.Server.TLSConfig)
					errc := make(chan error, 1)
					go func() {
						sconn.SetDeadline(time.Now().Add(20 * time.Second))
						err := sconn.Handshake()
						if err != nil {
							c2.Close() // unblock the peer (net.Pipe is synchronous)
						}
						errc <- err
					}()
					cconn := tls.Client(c1, ccfg)
					cconn.SetDeadline(time.Now().Add(20 * time.Second))
					cerr := cconn.Handshake()
					if cerr != nil {
						c1.Close()
					} else {
						// keep reading: a TLS 1.3 server sends session tickets at the end of its handshake and
						// net.Pipe has no buffer; a rejected client certificate also shows up here
						go func() {
							buf := make([]byte, 256)
							for {
								if _, err := cconn.Read(buf); err != nil {
									return
								}
							}
						}()
					}
					serr := <-errc
					rep.Eval(1)
					ok := cerr == nil && serr == nil
					var cs, ss tls.ConnectionState
					if ok {
						cs, ss = cconn.ConnectionState(), sconn.ConnectionState()
					}
					c1.Close()
					c2.Close()
					mk := func(got, wantS string) c06case {
						return c06case{cf, sni, cr.name, withCert, "", got, wantS}
					}
					if want < 0 {
						local["sni-matches-no-site(no expectation)"]++
						continue
					}
					w := sites[want]
					if w.host == "" && sni != "nomatch.example" && sni != "x.y.test" && !ok {
						local["catch-all-has-no-certificate-for-the-name(not judged)"]++
						continue
					}
					lo, hi := max16(cr.min, w.set.min), min16(cr.max, w.set.max)
					expectOK := lo <= hi
					if w.set.auth == "require-verify" && !withCert {
						expectOK = false
					}
					if hi < tls.VersionTLS12 && lo <= hi && !ok {
						// below TLS 1.2 the outcome also depends on the cipher lists (the default list has no
						// suite for these versions): a refusal is not judged
						local["legacy-version-refused(not judged)"]++
						continue
					}
					if ok != expectOK {
						kind := "handshake-refused-although-settings-allow-it"
						if ok {
							kind = "handshake-accepted-outside-the-site's-settings"
							if w.set.auth == "require-verify" && !withCert {
								kind = "client-certificate-not-enforced"
							}
						}
						rep.Violation("C06/"+kind, fmt.Sprintf("SNI %q -> site %d (%s, %s): handshake ok=%v (client err %v, server err %v), expected ok=%v", sni, want, w.host, w.set.name, ok, cerr, serr, expectOK), mk(fmt.Sprint(ok), fmt.Sprint(expectOK)))
						continue
					}
					if !ok {
						local["handshake-refused-as-expected"]++
						continue
					}
					if cs.Version != hi {
						rep.Violation("C06/wrong-protocol-version", fmt.Sprintf("negotiated %x, expected %x (site %s range %x-%x, client %s)", cs.Version, hi, w.set.name, w.set.min, w.set.max, cr.name), mk(fmt.Sprintf("%x", cs.Version), fmt.Sprintf("%x", hi)))
					}
					if cs.Version < tls.VersionTLS12 && w.set.min >= tls.VersionTLS12 {
						rep.Violation("C06/below-tls1.2-without-configuration", "a version below TLS 1.2 was negotiated for a site that does not allow it", mk(fmt.Sprintf("%x", cs.Version), ">= 0x303"))
					}
					if len(cs.PeerCertificates) == 0 || cs.PeerCertificates[0].SerialNumber.Int64() != serialOf[w.host] {
						got := "none"
						if len(cs.PeerCertificates) > 0 {
							got = cs.PeerCertificates[0].Subject.CommonName
						}
						rep.Violation("C06/wrong-certificate", fmt.Sprintf("SNI %q: presented certificate of %s, expected the one of site %q", sni, got, w.host), mk(got, w.host))
					}
					if w.set.cipher != 0 && cs.Version == tls.VersionTLS12 && cs.CipherSuite != w.set.cipher {
						rep.Violation("C06/cipher-outside-the-site's-list", fmt.Sprintf("negotiated cipher %x, site allows only %x", cs.CipherSuite, w.set.cipher), mk(fmt.Sprintf("%x", cs.CipherSuite), fmt.Sprintf("%x", w.set.cipher)))
					}
					if requested != (w.set.auth != "") {
						rep.Violation("C06/client-certificate-policy-of-another-site", fmt.Sprintf("client certificate requested=%v, site %q policy %q", requested, w.host, w.set.auth), mk(fmt.Sprint(requested), w.set.auth))
					}
					local["handshake-ok/"+w.set.name]++
					// request with every site's name as Host over this connection
					if cr.name != "1.2-1.3" || !withCert {
						continue
					}
					for hi2, hs := range sites {
						hostHdr := hs.host
						if hostHdr == "" {
							hostHdr = "other.example"
						}
						hostHdr = strings.Replace(hostHdr, "*", "w", 1)
						r := kit.MustReq(kit.Get("GET", "/", hostHdr+":8443"))
						st := ss
						r.TLS = &st
						rec, pv, _ := kit.ServeReq(srv, r)
						rep.Eval(1)
						if pv != nil {
							rep.Violation("C06/panic", fmt.Sprint(pv), mk("panic", ""))
							continue
						}
						target := refHostSite(sites, hostHdr)
						if target < 0 {
							continue
						}
						t := sites[target]
						sniMatchesHost := strings.ToLower(st.ServerName) == strings.ToLower(hostHdr) // (byte-wise after ASCII lower-casing: Unicode case folding would equate U+017F with s)
						if t.set.auth != "" && !sniMatchesHost {
							if rec.Status != 403 || len(rec.Snap.Values("X-Site")) > 0 {
								c := mk(fmt.Sprintf("status %d X-Site %v", rec.Status, rec.Snap.Values("X-Site")), "403 and no site content")
								c.Host = hostHdr
								rep.Violation("C06/client-auth-site-served-over-handshake-for-another-name", fmt.Sprintf("Host %q selects a client-certificate site, handshake was made under SNI %q", hostHdr, st.ServerName), c)
							}
							local["sni-host-mismatch-refused"]++
						} else {
							if fmt.Sprint(rec.Snap.Values("X-Site")) != fmt.Sprintf("[s%d]", t.idx) {
								c := mk(fmt.Sprintf("status %d X-Site %v", rec.Status, rec.Snap.Values("X-Site")), fmt.Sprintf("s%d", t.idx))
								c.Host = hostHdr
								rep.Violation("C06/request-after-handshake-misrouted", fmt.Sprintf("Host %q", hostHdr), c)
							}
							local["request-served"]++
						}
						_ = hi2
					}
				}
			}
		}
		// requests over connections whose (completed) handshake carried each possible server name, including none:
		// a client-certificate site must refuse every request whose Host differs from that name
		for _, connName := range append([]string{"", "unknown.example", "x.w.a.test", "x.w.test", "a.te\u017ft", "b.a.te\u017ft"}, hostMenu[:4]...) /* (the last two: names that equal a site's name only under Unicode case folding, U+017F for s) */ {
			connName = strings.Replace(connName, "*", "w", 1)
			// (Host values: every site's own name, and names two labels below the wildcard sites, which a wildcard does not cover)
			for _, hs := range append(append([]site{}, sites...), site{host: "x.*.a.test"}, site{host: "x.*.test"}) {
				hostHdr := hs.host
				if hostHdr == "" {
					hostHdr = "other.example"
				}
				hostHdr = strings.Replace(hostHdr, "*", "w", 1)
				r := kit.MustReq(kit.Get("GET", "/", hostHdr+":8443"))
				r.TLS = &tls.ConnectionState{ServerName: connName, Version: tls.VersionTLS13, HandshakeComplete: true}
				rec, pv, _ := kit.ServeReq(srv, r)
				rep.Eval(1)
				if pv != nil {
					rep.Violation("C06/panic", fmt.Sprint(pv), c06case{Casketfile: cf, SNI: connName, Host: hostHdr})
					continue
				}
				target := refHostSite(sites, hostHdr)
				if target < 0 {
					// no site answers for this name: nobody's content, whatever the handshake was
					if len(rec.Snap.Values("X-Site")) > 0 {
						rep.Violation("C06/request-after-handshake-misrouted/no-site-for-the-name", fmt.Sprintf("Host %q (handshake name %q) is covered by no site and was answered by %v", hostHdr, connName, rec.Snap.Values("X-Site")), c06case{cf, connName, "", true, hostHdr, fmt.Sprintf("status %d X-Site %v", rec.Status, rec.Snap.Values("X-Site")), "no site"})
					}
					continue
				}
				t := sites[target]
				if t.set.auth != "" && strings.ToLower(connName) != strings.ToLower(hostHdr) {
					if rec.Status != 403 || len(rec.Snap.Values("X-Site")) > 0 {
						kind := "C06/client-auth-site-served-over-handshake-for-another-name"
						if connName == "" {
							kind += "/no-sni"
						}
						rep.Violation(kind, fmt.Sprintf("Host %q selects a client-certificate site, the connection's handshake name was %q", hostHdr, connName), c06case{cf, connName, "", true, hostHdr, fmt.Sprintf("status %d X-Site %v", rec.Status, rec.Snap.Values("X-Site")), "403 and no site content"})
					}
					local["sni-host-mismatch-refused"]++
				} else if fmt.Sprint(rec.Snap.Values("X-Site")) != fmt.Sprintf("[s%d]", t.idx) {
					rep.Violation("C06/request-after-handshake-misrouted", fmt.Sprintf("Host %q", hostHdr), c06case{cf, connName, "", true, hostHdr, fmt.Sprintf("status %d X-Site %v", rec.Status, rec.Snap.Values("X-Site")), fmt.Sprintf("s%d", t.idx)})
				}
			}
		}
		rep.ClassN(local)
		if ji == 60 {
			rep.Sample(map[string]interface{}{"casketfile": cf, "handshakes": "7 SNI x 4 client version ranges x client certificate yes/no"})
		}
		return true
	})
	resumption(rep, dir, ca, caFile, clientPair, certs)
	caRotation(rep, dir, ca, clientPair, certs)
	// invalid listener groups: every sequence of 2..3 sites on one port with at least one TLS and at least one
	// plaintext site (written `tls off` or with the http:// scheme), in every order
	type badCf struct{ name, cf string }
	var bads []badCf
	mixHosts := []string{"a.test", "b.a.test", "*.test"}
	for n := 2; n <= 3; n++ {
		total := 1
		for i := 0; i < n; i++ {
			total *= 3
		}
		for code := 0; code < total; code++ {
			c, nT, nP := code, 0, 0
			name, cf := "", ""
			for i := 0; i < n; i++ {
				k := c % 3
				c /= 3
				switch k {
				case 0:
					nT++
					name += "T"
					cf += fmt.Sprintf("%s:8443 {\n\ttls %s %s\n}\n", mixHosts[i], certs["a.test"][0], certs["a.test"][1])
				case 1:
					nP++
					name += "O"
					cf += fmt.Sprintf("%s:8443 {\n\ttls off\n}\n", mixHosts[i])
				case 2:
					nP++
					name += "H"
					cf += fmt.Sprintf("http://%s:8443 {\n}\n", mixHosts[i])
				}
			}
			if nT > 0 && nP > 0 {
				bads = append(bads, badCf{"mixed/" + name, cf})
			}
		}
	}
	bads = append(bads,
		badCf{"tls+no-tls-line", fmt.Sprintf("a.test:8443 {\n\ttls %s %s\n}\nb.a.test:8443 {\n\tstatus 204 /\n\ttls off\n}\n", certs["a.test"][0], certs["a.test"][1])},
		// the catch-all under two of its spellings, with different client-certificate policies (both orders)
		badCf{"catch-all-aliases-different-client-auth/1", fmt.Sprintf("0.0.0.0:8443 {\n\ttls %s %s {\n\t\tclients %s\n\t}\n}\n[::]:8443 {\n\ttls %s %s\n}\n", certs["a.test"][0], certs["a.test"][1], caFile, certs["a.test"][0], certs["a.test"][1])},
		badCf{"catch-all-aliases-different-client-auth/2", fmt.Sprintf("[::]:8443 {\n\ttls %s %s\n}\n0.0.0.0:8443 {\n\ttls %s %s {\n\t\tclients %s\n\t}\n}\n", certs["a.test"][0], certs["a.test"][1], certs["a.test"][0], certs["a.test"][1], caFile)},
		badCf{"catch-all-aliases-different-client-auth/3", fmt.Sprintf(":8443 {\n\ttls %s %s {\n\t\tclients %s\n\t}\n}\n0.0.0.0:8443 {\n\ttls %s %s\n}\n", certs["a.test"][0], certs["a.test"][1], caFile, certs["a.test"][0], certs["a.test"][1])},
		badCf{"same-name-different-protocols", fmt.Sprintf("a.test:8443/p1 {\n\ttls %s %s {\n\t\tprotocols tls1.2 tls1.2\n\t}\n}\na.test:8443/p2 {\n\ttls %s %s {\n\t\tprotocols tls1.3\n\t}\n}\n", certs["a.test"][0], certs["a.test"][1], certs["a.test"][0], certs["a.test"][1])},
		badCf{"same-name-different-client-auth", fmt.Sprintf("a.test:8443/p1 {\n\ttls %s %s {\n\t\tclients %s\n\t}\n}\na.test:8443/p2 {\n\ttls %s %s\n}\n", certs["a.test"][0], certs["a.test"][1], caFile, certs["a.test"][0], certs["a.test"][1])})
	for _, bad := range bads {
		rep.Eval(1)
		l, err := kit.Load(bad.cf, filepath.Join(dir, "Casketfile"))
		if err == nil {
			l.Close()
			rep.Violation("C06/invalid-listener-group-accepted/"+bad.name, "a configuration that mixes TLS with plaintext (or incompatible same-name TLS settings) on one listener was accepted", c06case{Casketfile: bad.cf})
		}
		rep.Class("invalid-group-rejected")
	}
	if l, err := kit.Load(fmt.Sprintf("a.test:8443/p1 {\n\ttls %s %s\n}\na.test:8443/p2 {\n\ttls %s %s\n}\n", certs["a.test"][0], certs["a.test"][1], certs["a.test"][0], certs["a.test"][1]), filepath.Join(dir, "Casketfile")); err != nil {
		rep.Violation("C06/compatible-same-name-group-rejected", err.Error(), nil)
	} else {
		l.Close()
	}
	_ = http.StatusOK
	rep.Finish()
}

func max16(a, b uint16) uint16 {
	if a > b {
		return a
	}
	return b
}
func min16(a, b uint16) uint16 {
	if a < b {
		return a
	}
	return b
}

// oneSlot is a client session cache that hands the last ticket it was given to every connection, whatever its name.
type oneSlot struct {
	mu sync.Mutex
	s  *tls.ClientSessionState
}

func (o *oneSlot) Get(string) (*tls.ClientSessionState, bool) {
	o.mu.Lock()
	defer o.mu.Unlock()
	return o.s, o.s != nil
}
func (o *oneSlot) Put(_ string, s *tls.ClientSessionState) {
	o.mu.Lock()
	if s != nil {
		o.s = s
	}
	o.mu.Unlock()
}

// resumption: a client completes a handshake under the name of one site and then offers the session ticket it was given
// to another site of the listener. Whether the second handshake is a resumption or not, it is governed by the second
// site's client-certificate policy: it succeeds only if a fresh handshake under that name with the same certificate would.
func resumption(rep *kit.Report, dir string, ca *kit.CA, caFile string, clientPair tls.Certificate, certs map[string][2]string) {
	ca2 := kit.NewCA("verif CA 2")
	ca2File := filepath.Join(dir, "ca2.pem")
	os.WriteFile(ca2File, ca2.CertPEM, 0o644)
	_, _, pair2 := ca2.Leaf(998, "client2", nil, true)
	sock := filepath.Join(dir, "resumption.sock")
	ln, err := net.Listen("unix", sock)
	if err != nil {
		rep.Broken("resumption: listen: %v", err)
	}
	defer ln.Close()
	policies := []struct{ name, lines string }{{"none", ""}, {"verify-ca1", "clients " + caFile}, {"verify-ca2", "clients " + ca2File}, {"request", "clients request"},
		{"verify-if-given-ca1", "clients verify_if_given " + caFile}, {"verify-if-given-ca2", "clients verify_if_given " + ca2File}}
	// would a fresh handshake with this certificate be accepted under this policy?
	fresh := func(policy string, cert string) bool {
		switch policy {
		case "verify-ca1":
			return cert == "ca1"
		case "verify-ca2":
			return cert == "ca2"
		case "verify-if-given-ca1":
			return cert == "ca1" || cert == "none"
		case "verify-if-given-ca2":
			return cert == "ca2" || cert == "none"
		}
		return true
	}
	for _, pa := range policies {
		for _, pb := range policies {
			site := func(host, lines, idx string) string {
				out := fmt.Sprintf("%s:8443 {\n\ttls %s %s", host, certs[host][0], certs[host][1])
				if lines != "" {
					out += " {\n\t\t" + lines + "\n\t}"
				}
				return out + "\n\theader / X-Site " + idx + "\n\tstatus 204 /\n}\n"
			}
			cf := site("a.test", pa.lines, "s0") + site("b.a.test", pb.lines, "s1")
			l, err := kit.Load(cf, filepath.Join(dir, "Casketfile"))
			if err != nil {
				rep.Broken("resumption: load: %v\n%s", err, cf)
			}
			srv := l.Server("8443")
			for _, ver := range []uint16{tls.VersionTLS12, tls.VersionTLS13} {
				for _, certName := range []string{"ca1", "ca2", "none"} {
					for _, order := range [][2]string{{"a.test", "b.a.test"}, {"b.a.test", "a.test"}} {
						cache := &oneSlot{}
						polOf := map[string]string{"a.test": pa.name, "b.a.test": pb.name}
						lastErr := ""
						dial := func(sni string) (ok bool, resumed bool) {
							ccfg := &tls.Config{ServerName: sni, InsecureSkipVerify: true, MinVersion: ver, MaxVersion: ver, ClientSessionCache: cache,
								GetClientCertificate: func(*tls.CertificateRequestInfo) (*tls.Certificate, error) {
									switch certName {
									case "ca1":
										return &clientPair, nil
									case "ca2":
										return &pair2, nil
									}
									return &tls.Certificate{}, nil
								}}
							// (a socket pair, not net.Pipe: when a TLS 1.3 server declines a ticket both sides write at once, which an
							// unbuffered pipe cannot carry)
							c1, err := net.Dial("unix", sock)
							if err != nil {
								rep.Broken("resumption: dial: %v", err)
							}
							c2, err := ln.Accept()
							if err != nil {
								rep.Broken("resumption: accept: %v", err)
							}
							sconn := tls.Server(c2, srv.Server.TLSConfig)
							errc := make(chan error, 1)
							go func() {
								sconn.SetDeadline(time.Now().Add(20 * time.Second))
								err := sconn.Handshake()
								if err == nil {
									_, err = sconn.Write([]byte("k")) // (after the session tickets of TLS 1.3)
								}
								if err != nil {
									c2.Close()
								}
								errc <- err
							}()
							cconn := tls.Client(c1, ccfg)
							cconn.SetDeadline(time.Now().Add(20 * time.Second))
							cerr := cconn.Handshake()
							if cerr == nil {
								_, cerr = cconn.Read(make([]byte, 1))
							}
							if cerr != nil {
								c1.Close()
							}
							serr := <-errc
							rep.Eval(1)
							ok = cerr == nil && serr == nil
							lastErr = fmt.Sprintf("client: %v; server: %v", cerr, serr)
							if ok {
								resumed = sconn.ConnectionState().DidResume
							}
							c1.Close()
							c2.Close()
							return
						}
						first, second := order[0], order[1]
						ok1, _ := dial(first)
						if ok1 != fresh(polOf[first], certName) {
							rep.Violation("C06/resumption/first-handshake", fmt.Sprintf("handshake under %s (policy %s) with certificate %s: ok=%v", first, polOf[first], certName, ok1), c06case{Casketfile: cf, SNI: first})
							continue
						}
						if !ok1 {
							rep.Class("resumption/first-handshake-refused")
							continue
						}
						ok2, resumed := dial(second)
						want := fresh(polOf[second], certName)
						if ok2 != want {
							kind := "C06/resumption/ticket-of-another-site-bypasses-the-client-certificate-policy"
							if !ok2 {
								kind = "C06/resumption/handshake-refused-although-the-policy-allows-it"
							}
							rep.Violation(kind, fmt.Sprintf("TLS %x, client certificate %s: after a handshake under %s (policy %s) the ticket was offered under %s (policy %s): ok=%v resumed=%v, a fresh handshake gives ok=%v (%s)", ver, certName, first, polOf[first], second, polOf[second], ok2, resumed, want, lastErr), c06case{cf, second, fmt.Sprintf("%x", ver), certName != "none", "", fmt.Sprintf("ok=%v resumed=%v", ok2, resumed), fmt.Sprintf("ok=%v", want)})
						}
						rep.Class(fmt.Sprintf("resumption/second-handshake/resumed=%v/ok=%v", resumed, ok2))
					}
				}
			}
			l.Close()
		}
	}
}

// caRotation: the file named by `clients` is replaced (same path) between two loads of the same configuration, as a CA
// rotation does. After the second load the site trusts what the file holds now.
func caRotation(rep *kit.Report, dir string, ca *kit.CA, clientPair tls.Certificate, certs map[string][2]string) {
	ca2 := kit.NewCA("verif CA 3")
	_, _, pair2 := ca2.Leaf(997, "client3", nil, true)
	rot := filepath.Join(dir, "rotating-ca.pem")
	cf := fmt.Sprintf("a.test:8443 {\n\ttls %s %s {\n\t\tclients %s\n\t}\n\tstatus 204 /\n}\nb.a.test:8443 {\n\ttls %s %s\n\tstatus 204 /\n}\n", certs["a.test"][0], certs["a.test"][1], rot, certs["b.a.test"][0], certs["b.a.test"][1])
	sock := filepath.Join(dir, "rotation.sock")
	ln, err := net.Listen("unix", sock)
	if err != nil {
		rep.Broken("rotation: listen: %v", err)
	}
	defer ln.Close()
	handshake := func(srv *httpserver.Server, pair *tls.Certificate) bool {
		c1, err := net.Dial("unix", sock)
		if err != nil {
			rep.Broken("rotation: dial: %v", err)
		}
		c2, err := ln.Accept()
		if err != nil {
			rep.Broken("rotation: accept: %v", err)
		}
		defer c1.Close()
		defer c2.Close()
		sconn := tls.Server(c2, srv.Server.TLSConfig)
		errc := make(chan error, 1)
		go func() {
			sconn.SetDeadline(time.Now().Add(20 * time.Second))
			err := sconn.Handshake()
			if err == nil {
				_, err = sconn.Write([]byte("k"))
			}
			if err != nil {
				c2.Close()
			}
			errc <- err
		}()
		cconn := tls.Client(c1, &tls.Config{ServerName: "a.test", InsecureSkipVerify: true, GetClientCertificate: func(*tls.CertificateRequestInfo) (*tls.Certificate, error) { return pair, nil }})
		cconn.SetDeadline(time.Now().Add(20 * time.Second))
		cerr := cconn.Handshake()
		if cerr == nil {
			_, cerr = cconn.Read(make([]byte, 1))
		}
		if cerr != nil {
			c1.Close()
		}
		serr := <-errc
		rep.Eval(1)
		return cerr == nil && serr == nil
	}
	contents := [][]byte{ca.CertPEM, ca2.CertPEM, ca.CertPEM}
	pairs := []*tls.Certificate{&clientPair, &pair2, &clientPair}
	var prev *kit.Loaded
	for round, content := range contents {
		os.WriteFile(rot, content, 0o644)
		l, err := kit.Load(cf, filepath.Join(dir, "Casketfile"))
		if err != nil {
			rep.Broken("rotation: load: %v", err)
		}
		if prev != nil {
			prev.Close()
		}
		prev = l
		srv := l.Server("8443")
		for pi, name := range []string{"certificate of the CA the file holds now", "certificate of the CA the file held before"} {
			pair := pairs[round]
			want := true
			if pi == 1 {
				if round == 0 {
					continue
				}
				pair, want = pairs[round-1], false
			}
			if got := handshake(srv, pair); got != want {
				rep.Violation("C06/client-ca-file-replaced-between-loads", fmt.Sprintf("load number %d after the file named by `clients` was replaced: handshake with the %s: ok=%v, want %v", round+1, name, got, want), c06case{Casketfile: cf, SNI: "a.test"})
			}
		}
		rep.Class("client-ca-rotation")
	}
	prev.Close()
}
