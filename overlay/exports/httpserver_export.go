package httpserver

// VerifSites returns the site configurations served by s.
func (s *Server) VerifSites() []*SiteConfig { return s.sites }
