// C02, overlapping requests (E2): two requests for different files,
// listings or archives of one site run as threads of the cooperative
// scheduler on the source-instrumented staticfiles and browse packages
// (mutex, pool, header-commit and connection-write points); every
// interleaving up to the preemption bound is explored, and each client must
// receive exactly the response it receives when its request is served alone
// (so no client is sent bytes of a file another client asked for).
package main

import (
	"fmt"
	"hash/fnv"
	"path/filepath"
	"strings"

	"github.com/tmpim/casket/verifrt"
	"verif/internal/kit"
)

type ocase struct {
	Casketfile string   `json:"casketfile"`
	Prologue   []string `json:"prologue_requests"`
	Requests   []string `json:"overlapping_requests"`
	Bound      int      `json:"preemption_bound"`
	Schedule   []int    `json:"schedule"`
	Failure    string   `json:"failure"`
}

func overlapSeen(r *kit.Rec, pv interface{}) string {
	if pv != nil {
		return fmt.Sprintf("panic escaped: %v", pv)
	}
	if r == nil {
		return "no response"
	}
	b := r.Body.String()
	if len(b) > 300 {
		b = fmt.Sprintf("%s...(%d bytes, fnv %x)", b[:120], len(b), fnvOf(r.Body.Bytes()))
	}
	return fmt.Sprintf("%d CT=%q CE=%q CL=%q Loc=%q body=%q", r.Status, r.Snap.Get("Content-Type"), r.Snap.Get("Content-Encoding"), r.Snap.Get("Content-Length"), r.Snap.Get("Location"), b)
}

func overlapPhase(rep *kit.Report, root string) {
	dir := filepath.Join(root, "ovl")
	kit.WriteFile(dir, "a.txt", strings.Repeat("FILE-A ", 40))
	kit.WriteFile(dir, "b.txt", strings.Repeat("FILE-B ", 40))
	kit.WriteFile(dir, "a.txt.gz", "GZ-SIBLING-OF-A")
	kit.WriteFile(dir, "b.txt.br", "BR-SIBLING-OF-B")
	kit.WriteFile(dir, "d/index.html", "INDEX-OF-D")
	kit.WriteFile(dir, "d/.hid", "HIDDEN-IN-D")
	kit.WriteFile(dir, "e/x.txt", "X-IN-E")
	kit.WriteFile(dir, "e/y.txt", "Y-IN-E")
	type oreq struct {
		name, method, target string
		hdr                  []string
	}
	menu := []oreq{
		{"file-a", "GET", "/a.txt", nil},
		{"file-b", "GET", "/b.txt", nil},
		{"file-a-gzip-client", "GET", "/a.txt", []string{"Accept-Encoding: gzip"}},
		{"file-b-br-client", "GET", "/b.txt", []string{"Accept-Encoding: br"}},
		{"file-a-zstd-client", "GET", "/a.txt", []string{"Accept-Encoding: zstd"}},
		{"index-of-d", "GET", "/d/", nil},
		{"dir-without-slash", "GET", "/e", nil},
		{"listing-of-e", "GET", "/e/", nil},
		{"listing-json", "GET", "/e/", []string{"Accept: application/json"}},
		{"missing", "GET", "/nothing.txt", nil},
		{"range-of-a", "GET", "/a.txt", []string{"Range: bytes=7-20"}},
		{"head-b", "HEAD", "/b.txt", nil},
		{"hidden", "GET", "/d/.hid", nil},
	}
	raw := func(q oreq) string { return kit.Get(q.method, q.target, "o.test:8080", q.hdr...) }
	proMenu := [][]int{nil, {0}, {2}, {7}, {9}, {4}}
	pairs := [][2]int{{0, 1}, {2, 3}, {4, 2}, {4, 3}, {0, 5}, {6, 7}, {7, 8}, {1, 9}, {10, 1}, {11, 0}, {12, 0}, {7, 7}}
	bound := 2
	if rep.Thorough() {
		bound = 3
		for a := range menu {
			for b := a; b < len(menu); b++ {
				dup := false
				for _, p := range pairs {
					dup = dup || p == [2]int{a, b}
				}
				if !dup {
					pairs = append(pairs, [2]int{a, b})
				}
			}
		}
	}
	kit.IOPoint = verifrt.Point
	defer func() { kit.IOPoint = nil }()
	cf := fmt.Sprintf("o.test:8080 {\n\troot %s\n\tbrowse\n}\n", dir)
	l, err := kit.Load(cf, filepath.Join(root, "Casketfile-overlap"))
	if err != nil {
		rep.Broken("overlap: load: %v\n%s", err, cf)
	}
	defer l.Close()
	srv := l.Server("")
	for _, pro := range proMenu {
		for _, pair := range pairs {
			if rep.Expired() {
				rep.Capped("deadline reached before every overlap scenario was explored")
				return
			}
			var proRaw []string
			for _, i := range pro {
				proRaw = append(proRaw, raw(menu[i]))
			}
			raws := []string{raw(menu[pair[0]]), raw(menu[pair[1]])}
			var want [2]string
			for t := range raws {
				r, pv, _ := kit.Serve(srv, raws[t])
				want[t] = overlapSeen(r, pv)
			}
			var got [2]string
			body := func() {
				verifrt.ResetPools()
				got = [2]string{"did not finish", "did not finish"}
				for _, p := range proRaw {
					kit.Serve(srv, p)
				}
				for t := range raws {
					t := t
					verifrt.GoNamed(fmt.Sprintf("req%d", t), func() {
						r, pv, _ := kit.Serve(srv, raws[t])
						got[t] = overlapSeen(r, pv)
					})
				}
			}
			outcomes := map[string]bool{}
			check := func(res verifrt.Result) string {
				rep.Eval(1)
				rep.AddInt("overlap_transitions", int64(res.Steps))
				outcomes[got[0]+"|"+got[1]] = true
				for t := range raws {
					if got[t] != want[t] {
						return fmt.Sprintf("request %d (%s) overlapping with %s: the client receives %s; served alone it receives %s", t, menu[pair[t]].name, menu[pair[1-t]].name, got[t], want[t])
					}
				}
				return ""
			}
			st := verifrt.Explore(bound, verifrt.Options{MaxSteps: 20000}, body, check, rep.Expired)
			if st.Capped {
				rep.Capped(fmt.Sprintf("deadline reached inside an overlap exploration (preemption bound %d)", bound))
			} else {
				rep.AddInt("overlap_scenarios_completed", 1)
			}
			rep.AddInt("overlap_schedules", st.Executions)
			rep.AddInt("overlap_distinct_outcomes", int64(len(outcomes)))
			if st.MaxDepth > 0 {
				rep.Set("overlap_max_schedule_depth", st.MaxDepth)
			}
			if st.FirstFail != nil {
				rep.Violation("C02/overlap/response-differs-from-the-one-served-alone", st.FirstFail.Failure, ocase{cf, proRaw, raws, bound, st.FirstPrefix, st.FirstFail.Failure})
			}
			rep.Class(fmt.Sprintf("overlap/%s+%s", menu[pair[0]].name, menu[pair[1]].name))
		}
	}
	rep.Set("overlap_preemption_bound", bound)
}

func fnvOf(b []byte) uint64 {
	h := fnv.New64a()
	h.Write(b)
	return h.Sum64()
}
