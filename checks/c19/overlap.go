// C19, overlapping connections (E2): the ClientHello reader keeps its tee
// buffers in a pool. After every prologue of a small menu (connections that
// go away before a whole hello arrived: plain HTTP on the HTTPS port, a few
// bytes, half a hello; a complete hello), two connections deliver their
// hellos in two segments each as threads of the cooperative scheduler on the
// source-instrumented httpserver package (pool Get/Put, the listener's mutex
// and every read from a connection are scheduling points); every
// interleaving up to the preemption bound is explored, and what is recorded
// for each connection must equal what is recorded for the same hello arriving
// alone and unsplit.
package main

import (
	"crypto/tls"
	"fmt"

	"github.com/tmpim/casket/caskethttp/httpserver"
	"github.com/tmpim/casket/verifrt"
	"verif/internal/kit"
)

type ocase struct {
	Prologue []string `json:"prologue_connections"`
	Pair     []string `json:"overlapping_connections"`
	Bound    int      `json:"preemption_bound"`
	Schedule []int    `json:"schedule"`
	Failure  string   `json:"failure"`
}

func overlapPhase(rep *kit.Report, seeds [][]byte) {
	cfg := &tls.Config{}
	if len(seeds) < 2 {
		return
	}
	recA, recB := record(seeds[0]), record(seeds[len(seeds)-1])
	refA := httpserver.VerifRecordHellos([][][]byte{{recA}}, cfg)[0]
	refB := httpserver.VerifRecordHellos([][][]byte{{recB}}, cfg)[0]
	if refA == "" || refB == "" {
		rep.Broken("overlap: unsplit hello not recorded")
	}
	if refA == refB {
		rep.Assume("overlap: the two hellos are recorded alike (a mix-up of the two would go unseen)")
	}
	type conn struct {
		name   string
		chunks [][]byte
	}
	plain := conn{"plain-http", [][]byte{[]byte("GET / HTTP/1.1\r\nHost: x.test\r\n\r\n")}}
	proMenu := [][]conn{
		nil,
		{plain},
		{{"three-bytes", [][]byte{recA[:3]}}},
		{{"half-a-hello", [][]byte{recA[:5], recA[5 : len(recA)/2]}}},
		{{"whole-hello", [][]byte{recA}}},
		{plain, plain},
		{{"half-a-hello", [][]byte{recB[:len(recB)/2]}}, plain},
	}
	cutsA := []int{3, 5, len(recA) / 2, len(recA) - 1}
	cutsB := []int{3, 5, len(recB) / 2, len(recB) - 1}
	if !rep.Thorough() {
		cutsA, cutsB = []int{5, len(recA) / 2}, []int{3, len(recB) / 2}
	}
	bound := 2
	if rep.Thorough() {
		bound = 3
	}
	for _, pro := range proMenu {
		for _, ca := range cutsA {
			for _, cb := range cutsB {
				for _, same := range []bool{false, true} {
					if rep.Expired() {
						rep.Capped("deadline reached before every overlap scenario was explored")
						return
					}
					second, refSecond, cutSecond := recB, refB, cb
					if same {
						second, refSecond, cutSecond = recA, refA, min(cb, len(recA)-1)
					}
					pair := [2][][]byte{{recA[:ca], recA[ca:]}, {second[:cutSecond], second[cutSecond:]}}
					want := [2]string{refA, refSecond}
					var proChunks [][][]byte
					var proNames []string
					for _, c := range pro {
						proChunks = append(proChunks, c.chunks)
						proNames = append(proNames, c.name)
					}
					body := func() {
						verifrt.ResetPools()
						httpserver.VerifOverlapHellos(proChunks, pair, cfg, verifrt.GoNamed, verifrt.Point)
					}
					outcomes := map[string]bool{}
					check := func(res verifrt.Result) string {
						rep.Eval(1)
						rep.AddInt("overlap_transitions", int64(res.Steps))
						got := httpserver.VerifOverlapResult()
						outcomes[got[0]+"|"+got[1]] = true
						for t := 0; t < 2; t++ {
							if got[t] != want[t] {
								return fmt.Sprintf("connection %d of two overlapping ones (after %v): recorded %s; the same hello alone and unsplit is recorded as %s", t, proNames, trunc(got[t]), trunc(want[t]))
							}
						}
						return ""
					}
					st := verifrt.Explore(bound, verifrt.Options{MaxSteps: 20000}, body, check, rep.Expired)
					if st.Capped {
						rep.Capped(fmt.Sprintf("deadline reached inside an overlap exploration (preemption bound %d)", bound))
					} else {
						rep.AddInt("overlap_scenarios_completed", 1)
					}
					rep.AddInt("overlap_schedules", st.Executions)
					rep.AddInt("overlap_distinct_outcomes", int64(len(outcomes)))
					if st.MaxDepth > 0 {
						rep.Set("overlap_max_schedule_depth", st.MaxDepth)
					}
					if st.FirstFail != nil {
						rep.Violation("C19/overlap/recorded-hello-differs-from-the-one-recorded-alone", st.FirstFail.Failure,
							ocase{proNames, []string{fmt.Sprintf("hello A cut at %d", ca), fmt.Sprintf("hello %s cut at %d", map[bool]string{true: "A", false: "B"}[same], cutSecond)}, bound, st.FirstPrefix, st.FirstFail.Failure})
					}
					rep.Class(fmt.Sprintf("overlap/prologue=%v/same-hello=%v", proNames, same))
				}
			}
		}
	}
	rep.Set("overlap_preemption_bound", bound)
}
