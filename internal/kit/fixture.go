package kit

import (
	"archive/tar"
	"archive/zip"
	"bytes"
	"compress/gzip"
	"crypto/sha1"
	"fmt"
	"io"
	"os"
	"path/filepath"
	"strings"
)

// Token returns the unique content token of a fixture file identified by id.
func Token(id string) string {
	h := sha1.Sum([]byte(id))
	return fmt.Sprintf("TOK%x-END", h[:8])
}

// WriteFile writes content under root (creating directories).
func WriteFile(root, rel, content string) {
	p := filepath.Join(root, rel)
	os.MkdirAll(filepath.Dir(p), 0o755)
	if err := os.WriteFile(p, []byte(content), 0o644); err != nil {
		panic(err)
	}
}

// GzipBytes compresses b.
func GzipBytes(b []byte) []byte {
	var buf bytes.Buffer
	zw := gzip.NewWriter(&buf)
	zw.Write(b)
	zw.Close()
	return buf.Bytes()
}

// Gunzip decompresses b.
func Gunzip(b []byte) ([]byte, error) {
	zr, err := gzip.NewReader(bytes.NewReader(b))
	if err != nil {
		return nil, err
	}
	return io.ReadAll(zr)
}

// Unarchive returns member name -> content for a zip or tar(.gz) body; ok is
// false if b is neither.
func Unarchive(b []byte) (members map[string]string, ok bool) {
	members = map[string]string{}
	if zr, err := zip.NewReader(bytes.NewReader(b), int64(len(b))); err == nil && len(b) > 4 && string(b[:2]) == "PK" {
		for _, f := range zr.File {
			rc, err := f.Open()
			if err != nil {
				members[f.Name] = ""
				continue
			}
			c, _ := io.ReadAll(rc)
			rc.Close()
			members[f.Name] = string(c)
		}
		return members, true
	}
	var r io.Reader = bytes.NewReader(b)
	if len(b) > 2 && b[0] == 0x1f && b[1] == 0x8b {
		if zr, err := gzip.NewReader(bytes.NewReader(b)); err == nil {
			r = zr
		}
	}
	tr := tar.NewReader(r)
	n := 0
	for {
		h, err := tr.Next()
		if err != nil {
			break
		}
		c, _ := io.ReadAll(tr)
		members[h.Name] = string(c)
		n++
	}
	return members, n > 0
}

// FindTokens returns the ids (from the given id->token map) whose token
// occurs in text.
func FindTokens(text string, tokens map[string]string) []string {
	var out []string
	if !strings.Contains(text, "TOK") {
		return nil
	}
	for id, t := range tokens {
		if strings.Contains(text, t) {
			out = append(out, id)
		}
	}
	return out
}
