package kit

import (
	"crypto/ecdsa"
	"crypto/elliptic"
	"crypto/rand"
	"crypto/tls"
	"crypto/x509"
	"crypto/x509/pkix"
	"encoding/pem"
	"math/big"
	"os"
	"path/filepath"
	"time"
)

// CA is a harness certificate authority.
type CA struct {
	Cert    *x509.Certificate
	Key     *ecdsa.PrivateKey
	CertPEM []byte
}

// NewCA creates a CA valid for ten years.
func NewCA(name string) *CA {
	key, _ := ecdsa.GenerateKey(elliptic.P256(), rand.Reader)
	tpl := &x509.Certificate{SerialNumber: big.NewInt(1), Subject: pkix.Name{CommonName: name}, NotBefore: time.Now().Add(-time.Hour), NotAfter: time.Now().AddDate(10, 0, 0), IsCA: true, KeyUsage: x509.KeyUsageCertSign | x509.KeyUsageDigitalSignature, BasicConstraintsValid: true}
	der, err := x509.CreateCertificate(rand.Reader, tpl, tpl, &key.PublicKey, key)
	if err != nil {
		panic(err)
	}
	cert, _ := x509.ParseCertificate(der)
	return &CA{Cert: cert, Key: key, CertPEM: pem.EncodeToMemory(&pem.Block{Type: "CERTIFICATE", Bytes: der})}
}

// Leaf issues a certificate for the DNS names (client certificate if client is true)
// and returns PEM cert, PEM key and the parsed pair.
func (ca *CA) Leaf(serial int64, cn string, names []string, client bool) (certPEM, keyPEM []byte, pair tls.Certificate) {
	key, _ := ecdsa.GenerateKey(elliptic.P256(), rand.Reader)
	eku := []x509.ExtKeyUsage{x509.ExtKeyUsageServerAuth}
	if client {
		eku = []x509.ExtKeyUsage{x509.ExtKeyUsageClientAuth}
	}
	tpl := &x509.Certificate{SerialNumber: big.NewInt(serial), Subject: pkix.Name{CommonName: cn}, DNSNames: names, NotBefore: time.Now().Add(-time.Hour), NotAfter: time.Now().AddDate(5, 0, 0), KeyUsage: x509.KeyUsageDigitalSignature, ExtKeyUsage: eku}
	der, err := x509.CreateCertificate(rand.Reader, tpl, ca.Cert, &key.PublicKey, ca.Key)
	if err != nil {
		panic(err)
	}
	kb, _ := x509.MarshalECPrivateKey(key)
	certPEM = pem.EncodeToMemory(&pem.Block{Type: "CERTIFICATE", Bytes: der})
	keyPEM = pem.EncodeToMemory(&pem.Block{Type: "EC PRIVATE KEY", Bytes: kb})
	pair, err = tls.X509KeyPair(certPEM, keyPEM)
	if err != nil {
		panic(err)
	}
	return
}

// WriteLeaf writes cert and key files under dir and returns their paths.
func (ca *CA) WriteLeaf(dir, base string, serial int64, cn string, names []string) (certFile, keyFile string) {
	c, k, _ := ca.Leaf(serial, cn, names, false)
	os.MkdirAll(dir, 0o755)
	certFile, keyFile = filepath.Join(dir, base+".crt"), filepath.Join(dir, base+".key")
	os.WriteFile(certFile, c, 0o644)
	os.WriteFile(keyFile, k, 0o600)
	return
}
