// Free-running companion of C14: the same proxy code (instrumented, shims in
// pass-through mode because no exploration is active) driven by real
// goroutines, built with -race by the C14 check. The cooperative scheduler's
// hand-offs are happens-before edges that blind the race detector, so plain
// unsynchronised accesses are looked for here instead.
package main

import (
	"bytes"
	"context"
	"errors"
	"fmt"
	"io"
	"net/http"
	"strings"
	"sync"

	"github.com/tmpim/casket/casketfile"
	"github.com/tmpim/casket/caskethttp/httpserver"
	"github.com/tmpim/casket/caskethttp/proxy"
)

type rt struct{ k int }

func (t *rt) RoundTrip(r *http.Request) (*http.Response, error) {
	n := r.Context().Value(key{}).(int)
	switch (n + t.k) % 4 {
	case 1:
		return nil, errors.New("backend error")
	case 2:
		return nil, context.Canceled
	}
	return &http.Response{StatusCode: 200, Header: http.Header{}, Body: io.NopCloser(strings.NewReader("ok")), ContentLength: -1, Request: r}, nil
}

type key struct{}

type pw struct {
	h http.Header
	b bytes.Buffer
}

func (w *pw) Header() http.Header         { return w.h }
func (w *pw) WriteHeader(int)             {}
func (w *pw) Write(p []byte) (int, error) { return w.b.Write(p) }

func main() {
	for _, pol := range []string{"first", "round_robin", "least_conn", "random", "ip_hash"} {
		text := fmt.Sprintf("proxy / http://b0.test http://b1.test {\n policy %s\n max_conns 2\n max_fails 2\n fail_timeout 1ms\n try_duration 1ms\n try_interval 1ms\n}", pol)
		ups, err := proxy.NewStaticUpstreams(casketfile.NewDispenser("Casketfile", strings.NewReader(text)), "")
		if err != nil {
			panic(err)
		}
		// transports are installed by reflection-free access: Hosts is exported on the concrete type
		type hoster interface{ GetHostCount() int }
		p := proxy.Proxy{Upstreams: ups, Next: httpserver.EmptyNext}
		setTransports(ups[0])
		var wg sync.WaitGroup
		for g := 0; g < 4; g++ {
			wg.Add(1)
			go func(g int) {
				defer wg.Done()
				for i := 0; i < 200; i++ {
					r, _ := http.NewRequest("GET", "http://h/x", nil)
					r.RemoteAddr = fmt.Sprintf("10.0.0.%d:1", g)
					r = r.WithContext(context.WithValue(r.Context(), key{}, g+i))
					p.ServeHTTP(&pw{h: http.Header{}}, r)
				}
			}(g)
		}
		wg.Wait()
	}
	fmt.Println("RACE-PASS-DONE")
}
