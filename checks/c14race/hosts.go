package main

import (
	"reflect"

	"github.com/tmpim/casket/caskethttp/proxy"
)

func setTransports(u proxy.Upstream) {
	hosts := reflect.ValueOf(u).Elem().FieldByName("Hosts").Interface().(proxy.HostPool)
	for i, h := range hosts {
		h.ReverseProxy.Transport = &rt{k: i}
	}
}
