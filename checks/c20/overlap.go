// C20, overlapping requests (E2): two requests of one log scope run as
// threads of the cooperative scheduler on the source-instrumented log and
// httpserver packages (mutex, pool, probe-operation, header-commit and
// connection-write points); every interleaving up to the preemption bound is
// explored, and every log file must hold, for each of the two requests,
// exactly the line it holds when that request is served alone.
package main

import (
	"fmt"
	"os"
	"path/filepath"
	"sort"
	"strings"

	"github.com/tmpim/casket/verifrt"
	"verif/internal/kit"
)

type ocase struct {
	Casketfile string   `json:"casketfile"`
	Requests   []string `json:"overlapping_requests"`
	Bound      int      `json:"preemption_bound"`
	Schedule   []int    `json:"schedule"`
	Failure    string   `json:"failure"`
}

func overlapPhase(rep *kit.Report, root string) {
	dir := filepath.Join(root, "ov")
	os.MkdirAll(dir, 0o755)
	format := `"{uri} {status} {size} {>X-Id} {<X-Out}"`
	layouts := []struct {
		name, lines string
		files       []string
	}{
		{"one-log", fmt.Sprintf("\tlog / %s/o1.log %s\n", dir, format), []string{"o1.log"}},
		{"two-logs-one-scope", fmt.Sprintf("\tlog / %s/o2a.log %s\n\tlog / %s/o2b.log %s\n", dir, format, dir, format), []string{"o2a.log", "o2b.log"}},
		{"two-logs-one-file", fmt.Sprintf("\tlog / %s/o3.log %s\n\tlog / %s/o3.log \"second {uri} {status}\"\n", dir, format, dir), []string{"o3.log"}},
	}
	shapes := []struct{ name, probe string }{
		{"two-writes", "hdr:X-Out=oA;status:201;write:5xA;write:7xB"},
		{"write-flush-write", "hdr:X-Out=oA;status:200;write:3xA;flush;write:4xB"},
		{"error-status", "ret:404"},
		{"panic-after-write", "hdr:X-Out=oA;status:200;write:3xA;panic"},
		{"no-body", "hdr:X-Out=oA;status:204"},
	}
	pairs := [][2]int{{0, 0}, {0, 1}, {0, 2}, {1, 3}, {0, 4}, {2, 2}}
	bound := 2
	if rep.Thorough() {
		bound = 3
		for a := range shapes {
			for b := a; b < len(shapes); b++ {
				dup := false
				for _, p := range pairs {
					dup = dup || p == [2]int{a, b}
				}
				if !dup {
					pairs = append(pairs, [2]int{a, b})
				}
			}
		}
	}
	kit.IOPoint = verifrt.Point
	defer func() { kit.IOPoint = nil }()
	for _, lay := range layouts {
		for _, withErrors := range []bool{true, false} {
			errs := ""
			if withErrors {
				errs = "\terrors\n"
			}
			cf := fmt.Sprintf("a.test:8080 {\n\troot %s\n%s%s\tverif_probe\n}\n", root, lay.lines, errs)
			l, err := kit.Load(cf, filepath.Join(dir, "Casketfile"))
			if err != nil {
				rep.Broken("overlap: load: %v\n%s", err, cf)
			}
			srv := l.Server("")
			readAll := func() map[string][]string {
				out := map[string][]string{}
				for _, f := range lay.files {
					b, _ := os.ReadFile(filepath.Join(dir, f))
					lines := strings.Split(strings.TrimSuffix(string(b), "\n"), "\n")
					if len(b) == 0 {
						lines = nil
					}
					sort.Strings(lines)
					out[f] = lines
				}
				return out
			}
			truncate := func() {
				for _, f := range lay.files {
					os.Truncate(filepath.Join(dir, f), 0)
				}
			}
			for _, pair := range pairs {
				if rep.Expired() {
					rep.Capped("deadline reached before every overlap scenario was explored")
					l.Close()
					return
				}
				raws := make([]string, 2)
				for t := range raws {
					letters := []string{"ab", "cd"}[t]
					p := strings.NewReplacer("xA", "x"+letters[:1], "xB", "x"+letters[1:], "oA", "out"+letters[:1]).Replace(shapes[pair[t]].probe)
					raws[t] = kit.Get("GET", fmt.Sprintf("/r?id=%d", t), "a.test:8080", "X-Probe: "+p, fmt.Sprintf("X-Id: id%d", t))
				}
				// reference: the lines of each request served alone
				want := map[string][]string{}
				for t := range raws {
					truncate()
					kit.Serve(srv, raws[t])
					for f, lines := range readAll() {
						want[f] = append(want[f], lines...)
					}
				}
				for f := range want {
					sort.Strings(want[f])
				}
				body := func() {
					verifrt.ResetPools()
					truncate()
					for t := range raws {
						t := t
						verifrt.GoNamed(fmt.Sprintf("req%d", t), func() { kit.Serve(srv, raws[t]) })
					}
				}
				outcomes := map[string]bool{}
				check := func(res verifrt.Result) string {
					rep.Eval(1)
					rep.AddInt("overlap_transitions", int64(res.Steps))
					got := readAll()
					outcomes[fmt.Sprint(got)] = true
					for _, f := range lay.files {
						if strings.Join(got[f], "\n") != strings.Join(want[f], "\n") {
							return fmt.Sprintf("%s after two overlapping requests (%s, %s) holds %q; the same requests served alone leave %q", f, shapes[pair[0]].name, shapes[pair[1]].name, got[f], want[f])
						}
					}
					return ""
				}
				st := verifrt.Explore(bound, verifrt.Options{MaxSteps: 20000}, body, check, rep.Expired)
				if st.Capped {
					rep.Capped(fmt.Sprintf("deadline reached inside an overlap exploration (preemption bound %d)", bound))
				} else {
					rep.AddInt("overlap_scenarios_completed", 1)
				}
				rep.AddInt("overlap_schedules", st.Executions)
				rep.AddInt("overlap_distinct_outcomes", int64(len(outcomes)))
				if st.MaxDepth > 0 {
					rep.Set("overlap_max_schedule_depth", st.MaxDepth)
				}
				if st.FirstFail != nil {
					rep.Violation("C20/overlap/log-lines-differ-from-the-requests-served-alone", st.FirstFail.Failure, ocase{cf, raws, bound, st.FirstPrefix, st.FirstFail.Failure})
				}
				rep.Class(fmt.Sprintf("overlap/%s/%s+%s/errors=%v", lay.name, shapes[pair[0]].name, shapes[pair[1]].name, withErrors))
			}
			l.Close()
		}
	}
	rep.Set("overlap_preemption_bound", bound)
}
