// C19 — bytes from network peers cannot crash handlers or skew what is recorded.
package main

import (
	"bytes"
	"crypto/tls"
	"encoding/binary"
	"encoding/hex"
	"fmt"
	"io"
	"net"
	"net/http"
	"os"
	"path/filepath"
	"regexp"
	"runtime"
	"runtime/debug"
	"strings"
	"sync/atomic"

	"github.com/tmpim/casket/caskethttp/httpserver"
	"verif/internal/kit"
)

type c19case struct {
	What  string `json:"what"`
	Input string `json:"input"`
	Got   string `json:"got"`
	Want  string `json:"want,omitempty"`
}

func goHello(cfg *tls.Config) []byte {
	c1, c2 := net.Pipe()
	go func() {
		tls.Client(c1, cfg).Handshake()
		c1.Close()
	}()
	hdr := make([]byte, 5)
	if _, err := io.ReadFull(c2, hdr); err != nil {
		return nil
	}
	n := int(binary.BigEndian.Uint16(hdr[3:]))
	body := make([]byte, n)
	io.ReadFull(c2, body)
	c2.Close()
	return body // the handshake message (without the record header)
}

func record(msg []byte) []byte {
	h := []byte{22, 3, 1, byte(len(msg) >> 8), byte(len(msg))}
	return append(h, msg...)
}

func safely(f func() string) (out string, pv interface{}) {
	defer func() { pv = recover() }()
	return f(), nil
}

var userAgents = func() []string {
	var out []string
	for _, b := range []string{"Firefox", "Chrome", "CriOS", "Safari", "Edge", "MSIE", "Trident", "Other"} {
		for _, v := range []string{"", "/", "/1", "/45.0", "/52.0", "/52.0.1-x", "/.", "/45.0.", "/-", "/1e309", "/0x10"} {
			for _, w := range []string{"", " Windows"} {
				out = append(out, "Mozilla/5.0 "+b+v+w)
			}
			// text in front of the product token whose lower-case form has another byte length: Latin-1 bytes (not
			// valid UTF-8), the Kelvin sign, the dotted capital I
			for _, pre := range []string{"\xe9\xe9\xe9\xe9 ", "caf\xe9 ", "\u212a\u212a\u212a\u212a ", "\u0130\u0130\u0130 ", "\u023a\u023a\u023a "} {
				out = append(out, "Mozilla/5.0 (Windows; "+pre+") "+b+v)
			}
		}
	}
	return out
}()

func helloPart(rep *kit.Report, repo string) [][]byte {
	var seeds [][]byte
	// captured browser hellos of the repository's own test fixtures
	if src, err := os.ReadFile(filepath.Join(repo, "caskethttp/httpserver/mitm_test.go")); err == nil {
		for _, m := range regexp.MustCompile("helloHex:\\s+`([0-9a-fA-F]+)`").FindAllSubmatch(src, -1) {
			if b, err := hex.DecodeString(string(m[1])); err == nil {
				seeds = append(seeds, b)
			}
		}
	}
	nFixtures := len(seeds)
	for _, cfg := range []*tls.Config{
		{ServerName: "a.test", InsecureSkipVerify: true},
		{ServerName: "a.test", InsecureSkipVerify: true, MaxVersion: tls.VersionTLS12},
		{ServerName: "a.test", InsecureSkipVerify: true, NextProtos: []string{"h2", "http/1.1"}},
		{InsecureSkipVerify: true, CurvePreferences: []tls.CurveID{29, 23, 24, 25}},
		{ServerName: "a.test", InsecureSkipVerify: true, MinVersion: tls.VersionTLS13},
		{ServerName: "a.test", InsecureSkipVerify: true, CipherSuites: []uint16{tls.TLS_ECDHE_RSA_WITH_AES_128_GCM_SHA256}, MaxVersion: tls.VersionTLS12},
	} {
		if h := goHello(cfg); h != nil {
			seeds = append(seeds, h)
		}
	}
	rep.Set("hello_seeds", fmt.Sprintf("%d captured browser hellos from mitm_test.go + %d produced by crypto/tls", nFixtures, len(seeds)-nFixtures))
	if len(seeds) < 6 {
		rep.Broken("only %d hello seeds", len(seeds))
	}
	shortUAs := []string{"Mozilla/5.0 Firefox/52.0 Windows", "Mozilla/5.0 Firefox/60.0", "Mozilla/5.0 Chrome/60", "Mozilla/5.0 CriOS/1", "Mozilla/5.0 Safari/1", "Mozilla/5.0 Edge/1", "Other"}
	try := func(kind string, h []byte) {
		rep.Eval(1)
		uas := shortUAs
		if kind == "seed" {
			uas = userAgents
		}
		_, pv := safely(func() string { return httpserver.VerifHelloChecks(h, uas) })
		if pv != nil {
			where := "parse-or-heuristics"
			rep.Violation("C19/hello/panic/"+where, fmt.Sprintf("%s: %v", kind, pv), c19case{kind, hex.EncodeToString(h), fmt.Sprint(pv), ""})
		}
	}
	// structure-aware mutations, exhaustively
	curveAlpha := []uint16{29, 23, 24, 25, 256, 257, 0x0a0a}
	kit.Parallel(len(seeds), func(si int) bool {
		seed := seeds[si]
		if rep.Expired() {
			rep.Capped("deadline in hello mutations")
			return false
		}
		try("seed", seed)
		small := seed
		if si >= 12 && !rep.Thorough() && si < nFixtures {
			return true // quick: the first 12 fixtures and all crypto/tls hellos get the full treatment
		}
		for n := 0; n <= len(small); n++ {
			try("truncation", small[:n])
		}
		rep.Class("hello/truncations")
		for pos := 0; pos < len(small); pos++ {
			for _, v := range []byte{0x00, 0x01, 0x7f, 0x80, 0xff} {
				m := append([]byte{}, small...)
				m[pos] = v
				try("byte-substitution", m)
			}
		}
		rep.Class("hello/byte-substitutions")
		// locate the extensions block and rewrite the supported-groups list with every list of length <= 6
		if off, ok := extOffset(small); ok {
			lists := 0
			var rec func(cur []uint16)
			rec = func(cur []uint16) {
				m := withCurves(small, off, cur)
				try("curve-list", m)
				lists++
				if len(cur) == 6 || (len(cur) == 5 && !rep.Thorough() && si%4 != 0) {
					return
				}
				for _, c := range curveAlpha {
					rec(append(cur, c))
				}
			}
			if si%3 == 0 || si >= nFixtures {
				rec(nil)
				rep.Class("hello/curve-lists")
			}
			// supported_groups / ec_point_formats extensions with raw (malformed but length-consistent) bodies,
			// in place and as the last extension
			for _, typ := range []uint16{10, 11, 15, 0, 16} {
				for _, body := range [][]byte{{}, {0}, {1}, {0, 0}, {0, 1}, {0, 2}, {0, 2, 0}, {0, 2, 0, 29}, {0, 4, 0, 29}, {0, 3, 0, 29, 0}, {1, 0}, {2, 0}, {0xff}, {0xff, 0xff}, {0, 0, 0}} {
					for _, atEnd := range []bool{false, true} {
						try("raw-extension-body", withExt(small, off, typ, body, atEnd))
					}
				}
			}
			rep.Class("hello/raw-extension-bodies")
			// every 16-bit length field delta at every even position inside the extension block
			for pos := off; pos+1 < len(small); pos++ {
				for _, d := range []int{-2, -1, 1, 2} {
					m := append([]byte{}, small...)
					v := int(binary.BigEndian.Uint16(m[pos:])) + d
					binary.BigEndian.PutUint16(m[pos:], uint16(v))
					try("length-field-delta", m)
				}
				for _, v := range []uint16{0, 0xffff} {
					m := append([]byte{}, small...)
					binary.BigEndian.PutUint16(m[pos:], v)
					try("length-field-extreme", m)
				}
			}
			rep.Class("hello/length-fields")
		}
		return true
	})
	rep.Sample(map[string]interface{}{"kind": "hello mutation", "seed_hex_prefix": hex.EncodeToString(seeds[0][:40]), "mutations": "every truncation, every byte x {00,01,7f,80,ff}, every 16-bit field in the extension block x {-2,-1,+1,+2,0,ffff}, supported-groups replaced by every list of <=6 over {29,23,24,25,256,257,grease}", "user_agents": len(userAgents)})
	return seeds
}

// extOffset returns the offset of the 2-byte extensions length.
func extOffset(h []byte) (int, bool) {
	if len(h) < 43 {
		return 0, false
	}
	p := 38
	p += 1 + int(h[p]) // session id
	if p+2 > len(h) {
		return 0, false
	}
	p += 2 + int(binary.BigEndian.Uint16(h[p:])) // cipher suites
	if p+1 > len(h) {
		return 0, false
	}
	p += 1 + int(h[p]) // compression
	if p+2 > len(h) {
		return 0, false
	}
	return p, true
}

// withCurves rebuilds the hello with its supported_groups extension replaced (or appended) by list.
func withCurves(h []byte, extOff int, list []uint16) []byte {
	out := append([]byte{}, h[:extOff]...)
	var exts bytes.Buffer
	d := h[extOff+2:]
	for len(d) >= 4 {
		typ := binary.BigEndian.Uint16(d)
		l := int(binary.BigEndian.Uint16(d[2:]))
		if 4+l > len(d) {
			break
		}
		if typ != 10 {
			exts.Write(d[:4+l])
		} else {
			writeCurves(&exts, list)
			list = nil
		}
		d = d[4+l:]
	}
	if list != nil {
		writeCurves(&exts, list)
	}
	var l [2]byte
	binary.BigEndian.PutUint16(l[:], uint16(exts.Len()))
	out = append(out, l[:]...)
	out = append(out, exts.Bytes()...)
	// fix the handshake length (bytes 1..3)
	n := len(out) - 4
	out[1], out[2], out[3] = byte(n>>16), byte(n>>8), byte(n)
	return out
}

// withExt rebuilds the hello with extension typ given the raw body (replacing an existing one in
// place, or moved/added to the end), all enclosing lengths recomputed.
func withExt(h []byte, extOff int, typ uint16, body []byte, atEnd bool) []byte {
	out := append([]byte{}, h[:extOff]...)
	var exts bytes.Buffer
	ext := make([]byte, 4)
	binary.BigEndian.PutUint16(ext, typ)
	binary.BigEndian.PutUint16(ext[2:], uint16(len(body)))
	ext = append(ext, body...)
	placed := false
	d := h[extOff+2:]
	for len(d) >= 4 {
		t := binary.BigEndian.Uint16(d)
		l := int(binary.BigEndian.Uint16(d[2:]))
		if 4+l > len(d) {
			break
		}
		if t != typ {
			exts.Write(d[:4+l])
		} else if !atEnd {
			exts.Write(ext)
			placed = true
		}
		d = d[4+l:]
	}
	if !placed {
		exts.Write(ext)
	}
	var l [2]byte
	binary.BigEndian.PutUint16(l[:], uint16(exts.Len()))
	out = append(out, l[:]...)
	out = append(out, exts.Bytes()...)
	n := len(out) - 4
	out[1], out[2], out[3] = byte(n>>16), byte(n>>8), byte(n)
	return out
}

func writeCurves(b *bytes.Buffer, list []uint16) {
	var t [6]byte
	binary.BigEndian.PutUint16(t[:], 10)
	binary.BigEndian.PutUint16(t[2:], uint16(2+2*len(list)))
	binary.BigEndian.PutUint16(t[4:], uint16(2*len(list)))
	b.Write(t[:])
	for _, c := range list {
		var x [2]byte
		binary.BigEndian.PutUint16(x[:], c)
		b.Write(x[:])
	}
}

func segmentation(rep *kit.Report, seeds [][]byte) {
	cfg := &tls.Config{}
	for si, seed := range seeds {
		rec := record(seed)
		ref := httpserver.VerifRecordHellos([][][]byte{{rec}}, cfg)[0]
		if ref == "" {
			rep.Broken("unsplit hello %d was not recorded", si)
		}
		check := func(kind string, chunks [][]byte) {
			rep.Eval(1)
			var got []string
			_, pv := safely(func() string { got = httpserver.VerifRecordHellos([][][]byte{chunks}, cfg); return "" })
			if pv != nil {
				rep.Violation("C19/segmentation/panic", fmt.Sprint(pv), c19case{kind, fmt.Sprintf("seed %d", si), fmt.Sprint(pv), ""})
				return
			}
			if got[0] != ref {
				var lens []int
				for _, c := range chunks {
					lens = append(lens, len(c))
				}
				rep.Violation("C19/segmentation/recorded-hello-depends-on-read-boundaries", fmt.Sprintf("hello of %d bytes delivered in reads of %v recorded differently", len(rec), lens), c19case{kind, fmt.Sprintf("seed %d, read sizes %v", si, lens), trunc(got[0]), trunc(ref)})
			}
		}
		step := 1
		if len(rec) > 300 && !rep.Thorough() {
			step = 3
		}
		for a := 1; a < len(rec); a += step {
			check("two reads", [][]byte{rec[:a], rec[a:]})
		}
		rep.Class("segmentation/1-cut")
		if si >= len(seeds)-6 || rep.Thorough() {
			s2 := step * 4
			for a := 1; a < len(rec); a += s2 {
				for b := a + 1; b < len(rec); b += s2 {
					check("three reads", [][]byte{rec[:a], rec[a:b], rec[b:]})
				}
			}
			// all 2-cut positions among the first 12 bytes (record header and start of the message)
			for a := 1; a < 12 && a < len(rec); a++ {
				for b := a + 1; b < 13 && b < len(rec); b++ {
					check("three reads", [][]byte{rec[:a], rec[a:b], rec[b:]})
				}
			}
			rep.Class("segmentation/2-cuts")
		}
		// bytes of the next record arriving in the same read as the end of the hello, then a second connection
		extra := []byte{20, 3, 3, 0, 1, 1}
		for _, first := range [][][]byte{{append(append([]byte{}, rec...), extra...)}, {rec[:7], append(append([]byte{}, rec[7:]...), extra...)}} {
			rep.Eval(1)
			var got []string
			_, pv := safely(func() string {
				got = httpserver.VerifRecordHellos([][][]byte{first, {rec}, {rec[:3], rec[3:]}}, cfg)
				return ""
			})
			if pv != nil {
				rep.Violation("C19/segmentation/panic", fmt.Sprint(pv), c19case{"connection sequence", fmt.Sprintf("seed %d", si), fmt.Sprint(pv), ""})
				continue
			}
			for ci, g := range got {
				if g != ref {
					rep.Violation(fmt.Sprintf("C19/segmentation/recorded-hello-depends-on-earlier-connection/conn%d", ci+1), "a later connection's hello was recorded differently after a connection whose hello shared a read with following bytes", c19case{"connection sequence", fmt.Sprintf("seed %d", si), trunc(g), trunc(ref)})
				}
			}
		}
		rep.Class("segmentation/connection-sequence")
		// a different hello on the next connection of the same listener, then this one again: each connection's record is its own
		if si+1 < len(seeds) {
			other := record(seeds[si+1])
			rep.Eval(1)
			var got []string
			// (buffers come from a sync.Pool: with one processor and no collection in between, the next connection gets
			// the buffer the previous one gave back, which is the reuse this sequence is about)
			procs := runtime.GOMAXPROCS(1)
			gc := debug.SetGCPercent(-1)
			_, pv := safely(func() string {
				got = httpserver.VerifRecordHellos([][][]byte{{rec}, {other}, {rec[:5], rec[5:]}}, cfg)
				return ""
			})
			debug.SetGCPercent(gc)
			runtime.GOMAXPROCS(procs)
			if pv != nil {
				rep.Violation("C19/segmentation/panic", fmt.Sprint(pv), c19case{"connection sequence with two hellos", fmt.Sprintf("seed %d", si), fmt.Sprint(pv), ""})
			} else {
				for _, ci := range []int{0, 2} {
					if got[ci] != ref {
						rep.Violation(fmt.Sprintf("C19/segmentation/recorded-hello-depends-on-another-connection/conn%d", ci+1), "what was recorded for a connection differs once another connection with a different hello has been seen on the listener", c19case{"connection sequence with two hellos", fmt.Sprintf("seeds %d,%d", si, si+1), trunc(got[ci]), trunc(ref)})
					}
				}
			}
			rep.Class("segmentation/two-hellos")
		}
	}
	rep.Sample(map[string]interface{}{"kind": "segmentation", "example": "ClientHello record delivered as reads of 5 + 1 + rest bytes; then a second connection"})
}

// largeHellos: hellos of about 2, 5 and 16 KB (a padding extension added to a crypto/tls hello; post-quantum key shares make
// real ones this large) under every 1-cut on a grid, every delivery in equal reads of 17 sizes, and a long first read followed by
// the rest: what is recorded equals what is recorded for the unsplit record.
func largeHellos(rep *kit.Report, seeds [][]byte) {
	cfg := &tls.Config{}
	base := seeds[len(seeds)-1]
	off, ok := extOffset(base)
	if !ok {
		rep.Broken("large hellos: no extension block in the last seed")
	}
	for _, size := range []int{2000, 4900, 16000} {
		h := withExt(base, off, 21, make([]byte, size-len(base)), true)
		rec := record(h)
		ref := httpserver.VerifRecordHellos([][][]byte{{rec}}, cfg)[0]
		if ref == "" {
			rep.Broken("unsplit large hello (%d bytes) was not recorded", len(rec))
		}
		check := func(chunks [][]byte) {
			rep.Eval(1)
			var got []string
			_, pv := safely(func() string { got = httpserver.VerifRecordHellos([][][]byte{chunks}, cfg); return "" })
			var lens []int
			for _, c := range chunks {
				lens = append(lens, len(c))
			}
			if len(lens) > 6 {
				lens = append(lens[:5], -len(chunks))
			}
			if pv != nil {
				rep.Violation("C19/segmentation/panic", fmt.Sprint(pv), c19case{"large hello", fmt.Sprintf("%d bytes, read sizes %v", len(rec), lens), fmt.Sprint(pv), ""})
			} else if got[0] != ref {
				rep.Violation("C19/segmentation/recorded-hello-depends-on-read-boundaries/large", fmt.Sprintf("hello of %d bytes delivered in reads of %v (negative: number of equal reads) recorded differently", len(rec), lens), c19case{"large hello", fmt.Sprintf("%d bytes, read sizes %v", len(rec), lens), trunc(got[0]), trunc(ref)})
			}
		}
		step := 7
		if rep.Thorough() {
			step = 1
		}
		for a := 1; a < len(rec); a += step {
			check([][]byte{rec[:a], rec[a:]})
		}
		for _, n := range []int{1, 2, 3, 5, 16, 100, 512, 1000, 1024, 1460, 2048, 4095, 4096, 4097, 4500, 8192, 16383} {
			var chunks [][]byte
			for a := 0; a < len(rec); a += n {
				b := a + n
				if b > len(rec) {
					b = len(rec)
				}
				chunks = append(chunks, rec[a:b])
			}
			check(chunks)
		}
		rep.Class(fmt.Sprintf("segmentation/large-hello/%d", size))
	}
}

func trunc(s string) string {
	if len(s) > 160 {
		return s[:160] + "..."
	}
	return s
}

// ---- scripted FastCGI responder ----

var fcgiOut atomic.Pointer[[]byte]

func fcgiResponder(ln net.Listener) {
	for {
		c, err := ln.Accept()
		if err != nil {
			return
		}
		go func(c net.Conn) {
			defer c.Close()
			for {
				h := make([]byte, 8)
				if _, err := io.ReadFull(c, h); err != nil {
					return
				}
				n := int(binary.BigEndian.Uint16(h[4:])) + int(h[6])
				buf := make([]byte, n)
				if _, err := io.ReadFull(c, buf); err != nil {
					return
				}
				if h[1] == 5 && binary.BigEndian.Uint16(h[4:]) == 0 {
					break
				}
			}
			c.Write(*fcgiOut.Load())
		}(c)
	}
}

func frec(typ byte, content []byte) []byte {
	h := []byte{1, typ, 0, 1, byte(len(content) >> 8), byte(len(content)), 0, 0}
	return append(h, content...)
}

func otherParsers(rep *kit.Report, base string) {
	root := filepath.Join(base, "root")
	kit.WriteFile(root, "index.html", "<html>hi</html>")
	kit.WriteFile(root, "a.css", "x")
	fsock := filepath.Join(base, "f.sock")
	fln, err := net.Listen("unix", fsock)
	if err != nil {
		rep.Broken("listen: %v", err)
	}
	go fcgiResponder(fln)
	defer fln.Close()
	psock := filepath.Join(base, "p.sock")
	pln, err := net.Listen("unix", psock)
	if err != nil {
		rep.Broken("listen: %v", err)
	}
	var proxyReply atomic.Pointer[[]byte]
	defReply := []byte("HTTP/1.1 200 OK\r\nContent-Length: 2\r\n\r\nok")
	proxyReply.Store(&defReply)
	defF := append(append(frec(6, []byte("Content-Type: text/plain\r\n\r\nok")), frec(6, nil)...), frec(3, make([]byte, 8))...)
	fcgiOut.Store(&defF)
	go func() {
		for {
			c, err := pln.Accept()
			if err != nil {
				return
			}
			go func(c net.Conn) {
				defer c.Close()
				buf := make([]byte, 4096)
				c.Read(buf)
				c.Write(*proxyReply.Load())
			}(c)
		}
	}()
	defer pln.Close()
	logf := filepath.Join(base, "access.log")
	cf := fmt.Sprintf(":8080 {\n\troot %s\n\tpush\n\tlog / %s \"{method} {uri} {>X} {~c} {?q} {path} {query} {fragment} {request} {dir} {file} {hostonly} {port} {when_unix} {mitm} {tls_protocol} {server_port} {rewrite_uri} {>Referer} {remote} {uri_escaped} {path_escaped} {query_escaped} {request_id} {latency_ms}\"\n\tbasicauth /auth u p\n\tfastcgi /f unix:%s\n\tproxy /p unix:%s\n\tverif_probe\n}\n:8081 {\n\troot %s\n\tfastcgi / unix:%s\n}\n", root, logf, fsock, psock, root, fsock)
	l, err := kit.Load(cf, filepath.Join(base, "Casketfile"))
	if err != nil {
		rep.Broken("load: %v\n%s", err, cf)
	}
	defer l.Close()
	srv := l.Server("8080")
	serve := func(kind, raw string) {
		req, err := kit.Req(raw)
		if err != nil {
			rep.Class("rejected-by-net/http")
			return
		}
		before := kit.Log.Panics.Load()
		_, pv, _ := kit.ServeReq(srv, req)
		rep.Eval(1)
		if pv != nil {
			rep.Violation("C19/"+kind+"/panic-escaped-server", fmt.Sprint(pv), c19case{kind, raw, fmt.Sprint(pv), ""})
		} else if kit.Log.Panics.Load() != before {
			rep.Violation("C19/"+kind+"/panic-in-handler", "a [PANIC] line was logged while handling peer-supplied bytes (caught only by the top-level recover)", c19case{kind, raw, "see process log", ""})
		}
	}
	// Link headers from a backend/handler: every string of length <= 5 (thorough 6) over the alphabet
	alpha := []string{"<", ">", ";", ",", "=", "a", " ", "/"}
	maxLen := 5
	if rep.Thorough() {
		maxLen = 6
	}
	var gen func(cur string, n int)
	gen = func(cur string, n int) {
		if strings.TrimSpace(cur) == cur && cur != "" {
			serve("link-header", kit.Get("GET", "/x", "a.test:8080", "X-Probe: hdr:Link="+cur+" ;status:200;write:ok"))
		}
		if n == maxLen {
			return
		}
		for _, a := range alpha {
			gen(cur+a, n+1)
		}
	}
	gen("", 0)
	rep.Class("link-headers")
	// placeholders and matchers fed with hostile request values
	hostile := []string{"", "{", "}", "{}", "{>", "{>}", "{~}", "{?}", "\\", "\\{", "{$}", "{$=}", "%", "%zz", strings.Repeat("{", 50), "a\tb", "{host}{>X}", "=", ";", ","}
	for _, hv := range hostile {
		for _, cv := range hostile {
			for _, qv := range hostile {
				raw := "GET /p%2F/" + strings.ReplaceAll(strings.ReplaceAll(qv, " ", "+"), "\t", "%09") + "?q=" + strings.ReplaceAll(strings.ReplaceAll(cv, " ", "+"), "\t", "%09") + " HTTP/1.1\r\nHost: a.test:8080\r\n"
				if hv != "" {
					raw += "X: " + hv + "\r\nReferer: " + hv + "\r\n"
				}
				raw += "Cookie: c=" + cv + "; " + qv + "\r\nAuthorization: Basic " + hv + "\r\n\r\n"
				serve("placeholders-and-matchers", strings.Replace(raw, "GET /p%2F/", "GET /auth/", 1))
				serve("placeholders-and-matchers", raw)
			}
		}
	}
	// Host header values (the site is a catch-all, so every one of them reaches the handlers and the {host*}/{port} placeholders)
	for _, hv := range []string{"[::1", "[", "[:8080", "[]", "[]:80", "[::1]", "[::1]:8080", "[::1%25eth0]:80", "a.test:", ":8080", ":", "a.test:x", "a.test:8080:9", "a..test", ".", "%", "a.test:99999999999", "A.TEST", "\tb"} {
		serve("host-header", "GET /x?q=1 HTTP/1.1\r\nHost: "+hv+"\r\n\r\n")
		serve("host-header", "GET /auth/x HTTP/1.1\r\nHost: "+hv+"\r\nAuthorization: Basic dTpw\r\n\r\n")
	}
	rep.Class("host-headers")
	// request targets that leave the path empty or odd, on a site that hands everything to FastCGI (no ext/split preset)
	srvF := l.Server("8081")
	for _, tgt := range []string{"http://x", "http://x?q=1", "*", "http://x/", "/", "//", "/.", "/%00", "http://x/%2e%2e"} {
		for _, m := range []string{"GET", "OPTIONS", "POST"} {
			req, err := kit.Req(m + " " + tgt + " HTTP/1.1\r\nHost: x\r\nContent-Length: 0\r\n\r\n")
			if err != nil {
				rep.Class("rejected-by-net/http")
				continue
			}
			before := kit.Log.Panics.Load()
			_, pv, _ := kit.ServeReq(srvF, req)
			rep.Eval(1)
			if pv != nil || kit.Log.Panics.Load() != before {
				rep.Violation("C19/request-target/panic-in-handler", fmt.Sprintf("%s %s on a `fastcgi /` site: the handler panicked (pv=%v)", m, tgt, pv), c19case{"request-target", m + " " + tgt, "panic", ""})
			}
		}
	}
	rep.Class("request-targets")
	for _, a := range []string{"Basic", "Basic ", "Basic =", "Basic dTpw", "Basic dTo=", "Basic Og==", "Basic %%%", "Bearer x", "basic dTpw", "Basic dTpw dTpw", "Basic " + strings.Repeat("A", 5000)} {
		serve("basicauth-header", kit.Get("GET", "/auth/x", "a.test:8080", "Authorization: "+a))
	}
	rep.Class("placeholders-and-matchers")
	// request header fields at the size limits of a FastCGI name/value pair (a name or a value longer than one record can hold)
	for _, shape := range [][2]int{{70000, 1}, {65490, 20}, {65500, 0}, {10, 70000}, {65000, 65000}} {
		name := "X-" + strings.Repeat("N", shape[0])
		serve("fastcgi-request/oversized-header", kit.Get("GET", "/f/x.php", "a.test:8080", name+": "+strings.Repeat("v", shape[1])))
	}
	rep.Class("fastcgi-oversized-request-headers")
	// FastCGI response byte streams
	var streams [][]byte
	for _, st := range []string{"", "0", "99", "1000", "abc", "200 OK", "-1", "200", "600", " 200", "2e2", "9999999999999999999"} {
		streams = append(streams, append(append(frec(6, []byte("Status: "+st+"\r\nContent-Type: text/plain\r\n\r\nbody")), frec(6, nil)...), frec(3, make([]byte, 8))...))
	}
	okRec := frec(6, []byte("Content-Type: text/plain\r\n\r\nbody"))
	full := append(append(append([]byte{}, okRec...), frec(6, nil)...), frec(3, make([]byte, 8))...)
	for n := 0; n <= len(full); n++ {
		streams = append(streams, full[:n]) // every truncation
	}
	for pos := 0; pos < 8; pos++ {
		for _, v := range []byte{0, 1, 2, 7, 11, 0x80, 0xff} {
			m := append([]byte{}, full...)
			m[pos] = v
			streams = append(streams, m) // every header byte of the first record
		}
	}
	streams = append(streams, frec(6, []byte("no blank line")), frec(6, []byte(":\r\n\r\n")), frec(6, []byte("\r\n\r\n")), frec(6, []byte("A: b\r\n c\r\n\r\n")), frec(7, []byte("only stderr")), frec(11, []byte("unknown type")), append(frec(6, []byte("Content-Length: 99999\r\n\r\nshort")), frec(3, make([]byte, 8))...), append(frec(6, []byte("Transfer-Encoding: chunked\r\n\r\nzz\r\n")), frec(3, make([]byte, 8))...))
	// record sizes at the extremes of the two length fields: content {0, 1, 8, 65500, 65501, 65528, 65535} x padding {0, 1, 7, 8, 255},
	// as the first stdout record (it carries the header block) and as a later one
	for _, cl := range []int{0, 1, 8, 65500, 65501, 65528, 65535} {
		for _, pad := range []int{0, 1, 7, 8, 255} {
			for _, first := range []bool{true, false} {
				content := bytes.Repeat([]byte("x"), cl)
				hdr := []byte("Content-Type: text/plain\r\n\r\n")
				var st []byte
				if first {
					if cl >= len(hdr) {
						copy(content, hdr)
					}
				} else {
					st = frec(6, hdr)
				}
				r := frec(6, content)
				r[6] = byte(pad)
				r = append(r, make([]byte, pad)...)
				st = append(append(append(st, r...), frec(6, nil)...), frec(3, make([]byte, 8))...)
				streams = append(streams, st)
			}
		}
	}
	// the record that ends the request, with every body length from 0 to 9 (a conforming one has 8)
	for n := 0; n <= 9; n++ {
		streams = append(streams, append(append(append([]byte{}, okRec...), frec(6, nil)...), frec(3, make([]byte, n))...))
	}
	for _, s := range streams {
		s := s
		fcgiOut.Store(&s)
		serve("fastcgi-response", kit.Get("GET", "/f/x.php", "a.test:8080"))
	}
	rep.Class("fastcgi-responses")
	// HTTP backend doing the same for proxy
	for _, reply := range []string{"", "HTTP/1.1", "HTTP/1.1 200 OK\r\n\r\n", "HTTP/1.1 0 Zero\r\n\r\n", "HTTP/1.1 99 Low\r\nContent-Length: 0\r\n\r\n", "HTTP/1.1 1000 High\r\n\r\n", "HTTP/1.1 abc\r\n\r\n", "HTTP/1.1 200 OK\r\nContent-Length: -1\r\n\r\n", "HTTP/1.1 200 OK\r\nContent-Length: 5\r\n\r\nab", "HTTP/1.1 200 OK\r\nTransfer-Encoding: chunked\r\n\r\nzz\r\n", "HTTP/1.1 200 OK\r\nLink: >a<\r\nContent-Length: 0\r\n\r\n", "HTTP/1.1 101 Switching Protocols\r\nUpgrade: websocket\r\n\r\n", "HTTP/1.1 200 OK\r\nConnection: ,,;\r\nContent-Length: 0\r\n\r\n", "HTTP/1.1 204 No Content\r\nContent-Length: 3\r\n\r\nabc", "HTTP/1.1 304 Not Modified\r\nTrailer: X\r\n\r\n", "HTTP/1.1 200 OK\r\nTrailer: X\r\nTransfer-Encoding: chunked\r\n\r\n0\r\nX: y\r\n\r\n"} {
		b := []byte(reply)
		proxyReply.Store(&b)
		serve("proxy-response", kit.Get("GET", "/p/x", "a.test:8080"))
	}
	rep.Class("proxy-responses")
	rep.Sample(map[string]interface{}{"kind": "other parsers", "examples": []string{"Link: >a<", "FastCGI stdout 'Status: 0'", "Cookie: c={>}"}})
	_ = http.StatusOK
}

func main() {
	rep := kit.NewReport("C19", "exploration",
		"ClientHello: captured browser hellos of the repository's fixtures + 6 crypto/tls hellos, each under every truncation, every byte x 5 values, every 16-bit field of the extension block x 6 deltas, supported-groups replaced by every list of <=6 (5) over 7 values, each parsed, run through every heuristic and through the MITM handler with 176 User-Agent strings; segmentation: every 1-cut (and a grid of 2-cuts) delivery of each hello record through the real listener/crypto/tls read path, plus connection sequences, and hellos of 2, 5 and 16 KB under a grid of 1-cuts and equal reads of 17 sizes, recorded info compared with the unsplit one; Link headers: every string of length <=5 over 8 symbols through the push middleware; hostile header/cookie/query/path values through 25 placeholders, basicauth and matchers; mutated FastCGI and HTTP backend response streams including records of every content length in {0,1,8,65500,65501,65528,65535} x padding {0,1,7,8,255}; distinct_nontrivial = outcome classes")
	kit.Init()
	kit.RegisterProbe()
	repo := os.Getenv("VERIF_REPO")
	if repo == "" {
		repo = "/repo"
	}
	base := kit.TempDir("c19")
	defer os.RemoveAll(base)
	seeds := helloPart(rep, repo)
	overlapPhase(rep, seeds)
	segmentation(rep, seeds)
	largeHellos(rep, seeds)
	otherParsers(rep, base)
	os.RemoveAll(base)
	rep.Finish()
}
