package httpserver

import (
	"bytes"
	"crypto/tls"
	"fmt"
	"io"
	"net"
	"net/http"
	"strings"
	"time"
)

// VerifSites returns the site configurations served by s.
func (s *Server) VerifSites() []*SiteConfig { return s.sites }

// ---- C19: peer-facing parsers of mitm.go ----

// VerifHelloChecks parses a raw ClientHello message, runs every heuristic on
// the result, and serves one request through the MITM-detection handler with
// the given User-Agent. A panic propagates to the caller.
func VerifHelloChecks(hello []byte, userAgents []string) string {
	info := parseRawClientHello(hello)
	info.advertisesHeartbeatSupport()
	info.looksLikeFirefox()
	info.looksLikeChrome()
	info.looksLikeEdge()
	info.looksLikeSafari()
	info.looksLikeTor()
	ln := &tlsHelloListener{helloInfos: map[string]rawHelloInfo{"192.0.2.7:41234": info}}
	h := &tlsHandler{listener: ln, next: http.HandlerFunc(func(http.ResponseWriter, *http.Request) {})}
	for _, ua := range userAgents {
		r, _ := http.NewRequest("GET", "https://a.test/", nil)
		r.RemoteAddr = "192.0.2.7:41234"
		r.Header.Set("User-Agent", ua)
		getVersion(ua, "Firefox")
		getVersion(ua, "Chrome")
		h.ServeHTTP(nil, r)
	}
	return fmt.Sprintf("%+v", info)
}

type verifAddr string

func (a verifAddr) Network() string { return "tcp" }
func (a verifAddr) String() string  { return string(a) }

// verifConn is a net.Conn whose Read returns the scripted chunks one by one.
type verifConn struct {
	chunks [][]byte
	remote string
	point  func() // called before every Read (the E2 harness makes it a scheduling point)
}

func (c *verifConn) Read(b []byte) (int, error) {
	if c.point != nil {
		c.point()
	}
	if len(c.chunks) == 0 {
		return 0, io.EOF
	}
	n := copy(b, c.chunks[0])
	if n < len(c.chunks[0]) {
		c.chunks[0] = c.chunks[0][n:]
	} else {
		c.chunks = c.chunks[1:]
	}
	return n, nil
}
func (c *verifConn) Write(b []byte) (int, error)      { return len(b), nil }
func (c *verifConn) Close() error                     { return nil }
func (c *verifConn) LocalAddr() net.Addr              { return verifAddr("192.0.2.1:443") }
func (c *verifConn) RemoteAddr() net.Addr             { return verifAddr(c.remote) }
func (c *verifConn) SetDeadline(time.Time) error      { return nil }
func (c *verifConn) SetReadDeadline(time.Time) error  { return nil }
func (c *verifConn) SetWriteDeadline(time.Time) error { return nil }

type verifListener struct{ conns []*verifConn }

func (l *verifListener) Accept() (net.Conn, error) {
	if len(l.conns) == 0 {
		return nil, io.EOF
	}
	c := l.conns[0]
	l.conns = l.conns[1:]
	return c, nil
}
func (l *verifListener) Close() error   { return nil }
func (l *verifListener) Addr() net.Addr { return verifAddr("192.0.2.1:443") }

// VerifRecordHellos accepts one connection per element of conns through the
// real tlsHelloListener (each connection delivers its bytes in the given
// chunks), lets crypto/tls read from it, and returns what was recorded for
// each connection ("" if nothing).
func VerifRecordHellos(conns [][][]byte, cfg *tls.Config) []string {
	inner := &verifListener{}
	for i, chunks := range conns {
		cp := make([][]byte, len(chunks))
		for j := range chunks {
			cp[j] = append([]byte{}, chunks[j]...)
		}
		inner.conns = append(inner.conns, &verifConn{chunks: cp, remote: fmt.Sprintf("192.0.2.7:%d", 5000+i)})
	}
	ln := newTLSListener(inner, cfg)
	out := make([]string, len(conns))
	for i := range conns {
		c, err := ln.Accept()
		if err != nil {
			break
		}
		_ = c.(*tls.Conn).Handshake() // fails after the hello (no more bytes); the hello has been teed by then
		ln.helloInfosMu.RLock()
		if info, ok := ln.helloInfos[fmt.Sprintf("192.0.2.7:%d", 5000+i)]; ok {
			out[i] = fmt.Sprintf("%+v", info)
		}
		// every earlier connection is still open: what was recorded for it must not have changed meanwhile
		// (checked after each connection: a later one may put the old bytes back)
		for j := 0; j < i; j++ {
			if info, ok := ln.helloInfos[fmt.Sprintf("192.0.2.7:%d", 5000+j)]; ok && !strings.HasPrefix(out[j], "CHANGED") {
				if now := fmt.Sprintf("%+v", info); now != out[j] {
					out[j] = fmt.Sprintf("CHANGED-AFTER-CONNECTION-%d: %s (was %s)", i+1, now, out[j])
				}
			}
		}
		ln.helloInfosMu.RUnlock()
	}
	return out
}

// VerifOverlapHellos accepts the prologue connections one after the other
// (each is handled to its end and closed), then the two connections of pair
// at once: spawn starts one thread per connection, point is called before
// every read from a connection. It returns what was recorded for each of the
// two ("" if nothing), read after both have finished.
func VerifOverlapHellos(prologue [][][]byte, pair [2][][]byte, cfg *tls.Config, spawn func(name string, f func()), point func()) [2]string {
	inner := &verifListener{}
	mk := func(chunks [][]byte, i int, pt func()) *verifConn {
		cp := make([][]byte, len(chunks))
		for j := range chunks {
			cp[j] = append([]byte{}, chunks[j]...)
		}
		return &verifConn{chunks: cp, remote: fmt.Sprintf("192.0.2.7:%d", 5000+i), point: pt}
	}
	for i, chunks := range prologue {
		inner.conns = append(inner.conns, mk(chunks, i, nil))
	}
	for t := 0; t < 2; t++ {
		inner.conns = append(inner.conns, mk(pair[t], len(prologue)+t, point))
	}
	ln := newTLSListener(inner, cfg)
	for range prologue {
		c, err := ln.Accept()
		if err != nil {
			return [2]string{"accept failed", "accept failed"}
		}
		// as net/http's conn.serve does: plain HTTP on a TLS port is answered on the raw connection, which is then
		// closed; the deferred close of the TLS connection follows
		if err := c.(*tls.Conn).Handshake(); err != nil {
			if re, ok := err.(tls.RecordHeaderError); ok && re.Conn != nil && bytes.HasPrefix(re.RecordHeader[:], []byte("GET /")) {
				io.WriteString(re.Conn, "HTTP/1.0 400 Bad Request\r\n\r\nClient sent an HTTP request to an HTTPS server.\n")
				re.Conn.Close()
			}
		}
		c.Close()
	}
	var accepted [2]net.Conn
	for t := 0; t < 2; t++ {
		c, err := ln.Accept()
		if err != nil {
			return [2]string{"accept failed", "accept failed"}
		}
		accepted[t] = c
	}
	done := make([]bool, 2)
	for t := 0; t < 2; t++ {
		t := t
		spawn(fmt.Sprintf("conn%d", t), func() {
			_ = accepted[t].(*tls.Conn).Handshake()
			done[t] = true
		})
	}
	verifOverlapResult = func() [2]string {
		var out [2]string
		ln.helloInfosMu.RLock()
		defer ln.helloInfosMu.RUnlock()
		for t := 0; t < 2; t++ {
			if !done[t] {
				out[t] = "did not finish"
			} else if info, ok := ln.helloInfos[fmt.Sprintf("192.0.2.7:%d", 5000+len(prologue)+t)]; ok {
				out[t] = fmt.Sprintf("%+v", info)
			}
		}
		return out
	}
	return [2]string{}
}

var verifOverlapResult func() [2]string

// VerifOverlapResult reports what the last VerifOverlapHellos recorded, once its threads have finished.
func VerifOverlapResult() [2]string { return verifOverlapResult() }
