package kit

import (
	"runtime"
	"sync"
	"sync/atomic"
)

// Parallel runs fn(i) for i in [0,n) on GOMAXPROCS workers; fn returning
// false stops the distribution of further items.
func Parallel(n int, fn func(i int) bool) {
	var next atomic.Int64
	var stop atomic.Bool
	var wg sync.WaitGroup
	w := runtime.GOMAXPROCS(0)
	if w > n {
		w = n
	}
	for k := 0; k < w; k++ {
		wg.Add(1)
		go func() {
			defer wg.Done()
			for !stop.Load() {
				i := int(next.Add(1) - 1)
				if i >= n {
					return
				}
				if !fn(i) {
					stop.Store(true)
				}
			}
		}()
	}
	wg.Wait()
}

// Subsets calls fn for every subset of {0..n-1} with size in [lo,hi], in
// order of increasing size then lexicographic.
func Subsets(n, lo, hi int, fn func(idx []int)) {
	var rec func(start int, cur []int, k int)
	rec = func(start int, cur []int, k int) {
		if len(cur) == k {
			fn(append([]int{}, cur...))
			return
		}
		for i := start; i < n; i++ {
			rec(i+1, append(cur, i), k)
		}
	}
	for k := lo; k <= hi && k <= n; k++ {
		rec(0, nil, k)
	}
}

// Perms calls fn for every permutation of {0..n-1} (identity first).
func Perms(n int, fn func(p []int)) {
	p := make([]int, n)
	used := make([]bool, n)
	var rec func(k int)
	rec = func(k int) {
		if k == n {
			fn(append([]int{}, p...))
			return
		}
		for i := 0; i < n; i++ {
			if !used[i] {
				used[i] = true
				p[k] = i
				rec(k + 1)
				used[i] = false
			}
		}
	}
	rec(0)
}
