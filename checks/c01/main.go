// C01 — virtual-host routing picks the most specific site, or none.
// Exhaustive enumeration of site-address sets (every declaration order, every
// fallback designation) x request Host/path/proto, through Server.ServeHTTP,
// against a list-based reference written from the statement.
package main

import (
	"context"
	"fmt"
	"net"
	"net/http"
	"net/url"
	"sort"
	"strings"
	"sync"

	"github.com/tmpim/casket"
	"github.com/tmpim/casket/caskethttp/httpserver"
	"verif/internal/kit"
)

type addr struct{ host, path string }

func (a addr) String() string { return a.host + ":8080" + a.path }

var hosts = []string{"a.test", "b.a.test", "*.test", "*.a.test", "*.*.test", "", "0.0.0.0"}
var paths = []string{"", "/p", "/p/q", "/pq", "/P"}

var reqHosts = []string{"a.test", "A.TEST", "a.test:8080", "b.a.test", "c.b.a.test", "x.test", "other.example", "test", "B.a.Test:9"}

// (the last two spell /p/q/r with a percent-encoded letter and a percent-encoded slash inside the prefix: the site is chosen by the decoded path)
var reqPaths = []string{"/", "/p", "/p/", "/p/q/r", "/pq", "/pz", "/P", "/x", "/%70/q/r", "/p%2Fq/r"}

func init() {
	httpserver.RegisterDevDirective("verif_fallback", "")
	casket.RegisterPlugin("verif_fallback", casket.Plugin{ServerType: "http", Action: func(c *casket.Controller) error {
		for c.Next() {
		}
		httpserver.GetConfig(c).FallbackSite = true
		return nil
	}})
}

// ---- reference model (lists only) ----

func decoded(p string) string {
	if d, err := url.PathUnescape(p); err == nil {
		return d
	}
	return p
}

func isCatchAll(h string) bool { return h == "" || h == "0.0.0.0" || h == "[::]" }

// hostCandidates returns, most specific first, the site host strings that the
// request host may select: the exact name, then patterns wildcarding 1..n
// leading labels.
func hostCandidates(reqHost string) []string {
	h := strings.ToLower(reqHost)
	if hh, _, err := net.SplitHostPort(h); err == nil {
		h = hh
	}
	out := []string{h}
	labels := strings.Split(h, ".")
	for i := range labels {
		labels[i] = "*"
		out = append(out, strings.Join(labels, "."))
	}
	return out
}

// pickInGroup returns the index of the site with the longest byte-wise path
// prefix among the sites whose host is exactly host, or -1.
func pickInGroup(sites []addr, host, reqPath string) int {
	best, bestLen := -1, -1
	for i, s := range sites {
		if s.host != host {
			continue
		}
		p := s.path
		if p == "" {
			p = "/"
		}
		if strings.HasPrefix(reqPath, p) && len(p) > bestLen {
			best, bestLen = i, len(p)
		}
	}
	return best
}

// expected returns the set of acceptable outcomes (site index, or -1 for
// site-not-found). More than one outcome is acceptable only where the
// statement does not order the alternatives (several catch-all / fallback
// host groups).
func expected(sites []addr, fallback int, reqHost, reqPath string) map[int]bool {
	have := map[string]bool{}
	for _, s := range sites {
		have[s.host] = true
	}
	for _, c := range hostCandidates(reqHost) {
		if c == "" {
			continue
		}
		if have[c] {
			return map[int]bool{pickInGroup(sites, c, reqPath): true}
		}
	}
	out := map[int]bool{}
	any := false
	for h := range have {
		if isCatchAll(h) {
			any = true
			out[pickInGroup(sites, h, reqPath)] = true
		}
	}
	if fallback >= 0 {
		any = true
		out[pickInGroup(sites, sites[fallback].host, reqPath)] = true
	}
	if !any {
		out[-1] = true
	}
	return out
}

func dupExpected(sites []addr) bool {
	seen := map[string]bool{}
	for _, s := range sites {
		k := strings.ToLower(s.host + s.path)
		if seen[k] {
			return true
		}
		seen[k] = true
	}
	return false
}

func casketfile(sites []addr, order []int, fallback int) string {
	var b strings.Builder
	for _, i := range order {
		fmt.Fprintf(&b, "%s {\n\theader / X-Site s%d\n\tstatus 204 /\n", sites[i], i)
		if i == fallback {
			b.WriteString("\tverif_fallback\n")
		}
		b.WriteString("}\n")
	}
	return b.String()
}

type vcase struct {
	Casketfile string `json:"casketfile"`
	Host       string `json:"host"`
	Path       string `json:"path"`
	Proto      int    `json:"proto_major"`
	Got        string `json:"got"`
	Want       string `json:"want"`
}

func main() {
	rep := kit.NewReport("C01", "exploration",
		"every set of <=K site addresses from 7 host patterns x 5 path prefixes, every declaration order, every fallback designation, x 9 Host x 8 path x 2 protocol requests through Server.ServeHTTP; non-trivial/distinct = distinct (sorted site set, fallback, request, outcome) classes summarised as outcome kinds")
	kit.Init()
	kit.Log.Off.Store(true)
	kit.ParallelLoads = true
	var all []addr
	for _, h := range hosts {
		for _, p := range paths {
			all = append(all, addr{h, p})
		}
	}
	maxK := 3
	if rep.Thorough() {
		maxK = 4
	}
	var sets [][]int
	kit.Subsets(len(all), 1, maxK, func(idx []int) { sets = append(sets, idx) })
	rep.Set("site_sets", len(sets))
	rep.Assume("IPv6 literals, trailing-dot hosts, non-origin-form targets and two designated fallbacks on one listener are outside the alphabet")
	rep.Assume("where several catch-all/fallback host groups exist the statement does not order them: any of them is accepted, but the outcome must not depend on declaration order")

	kit.Parallel(len(sets), func(si int) bool {
		if rep.Expired() {
			rep.Capped("deadline reached")
			return false
		}
		idx := sets[si]
		sites := make([]addr, len(idx))
		for i, j := range idx {
			sites[i] = all[j]
		}
		local := map[string]int64{}
		dup := dupExpected(sites)
		// in thorough tier with 4 sites only cyclic rotations + reversal of orders are explored per fallback to keep the product finite in time
		var allOrders [][]int
		kit.Perms(len(sites), func(p []int) { allOrders = append(allOrders, p) })
		n := len(sites)
		for fb := -1; fb < n; fb++ {
			orders := allOrders
			// bound on declaration orders: all n! orders for n<=2, and for n=3 without a
			// designated fallback (all of them in the thorough tier); otherwise identity,
			// reversal and the two rotations
			if (n == 3 && fb >= 0 && !rep.Thorough()) || n >= 4 {
				orders = nil
				id := allOrders[0]
				rev := make([]int, n)
				rot1 := make([]int, n)
				rot2 := make([]int, n)
				for i := range id {
					rev[i] = n - 1 - i
					rot1[i] = (i + 1) % n
					rot2[i] = (i + n - 1) % n
				}
				orders = [][]int{id, rev, rot1, rot2}
			}
			var baseline map[string]string // request -> outcome of first order
			for oi, order := range orders {
				cf := casketfile(sites, order, fb)
				l, err := kit.Load(cf, "/nonexistent/Casketfile")
				if err != nil {
					rep.Eval(1)
					if dup && strings.Contains(err.Error(), "duplicate site") {
						local["load-rejected:duplicate-key"]++
						continue
					}
					rep.Violation("C01/unexpected-load-error", "site set failed to load: "+err.Error(), vcase{Casketfile: cf})
					continue
				}
				if dup {
					rep.Violation("C01/duplicate-accepted", "case-folded duplicate site keys were accepted", vcase{Casketfile: cf})
				}
				srv := l.Server("")
				if srv == nil {
					// every site of the set is declared on port 8080: they all belong on one listener
					rep.Violation("C01/sites-of-one-port-on-several-listeners", fmt.Sprintf("the sites of one port were distributed over %d servers", len(l.Servers)), vcase{Casketfile: cf})
					l.Close()
					continue
				}
				cur := map[string]string{}
				for _, rh := range reqHosts {
					for _, rp := range reqPaths {
						for proto := 1; proto <= 2; proto++ {
							r := reqFor(rh, rp, proto)
							rec, pv, _ := kit.ServeReq(srv, r)
							rep.Eval(1)
							got := outcome(rec, pv, rh, proto)
							want := expected(sites, fb, rh, decoded(rp))
							key := fmt.Sprintf("%s %s %d", rh, rp, proto)
							cur[key] = got
							ok := false
							var wl []string
							for w := range want {
								ws := "none"
								if w >= 0 {
									ws = fmt.Sprintf("s%d", w)
								}
								wl = append(wl, ws)
								if ws == got {
									ok = true
								}
							}
							sort.Strings(wl)
							if !ok {
								kind := "wrong-site"
								if got == "none" {
									kind = "unrouted"
								} else if strings.HasPrefix(got, "bad:") {
									kind = "malformed"
								} else if len(want) == 1 && want[-1] {
									kind = "routed-but-should-404"
								}
								rep.Violation("C01/"+kind, fmt.Sprintf("Host %q path %q proto %d: got %s, reference allows %v", rh, rp, proto, got, wl),
									vcase{cf, rh, rp, proto, got, strings.Join(wl, "|")})
							}
							if oi > 0 && baseline[key] != got {
								rep.Violation("C01/order-dependent", fmt.Sprintf("Host %q path %q: %s in first declaration order, %s in order %v", rh, rp, baseline[key], got, order),
									vcase{cf, rh, rp, proto, got, baseline[key]})
							}
							cl := "routed"
							if got == "none" {
								cl = "not-found"
							}
							if len(want) > 1 {
								cl += "/ambiguous-catchall"
							}
							if fb >= 0 {
								cl += "/fallback-designated"
							}
							local[fmt.Sprintf("%s/k=%d/proto%d", cl, len(sites), proto)]++
						}
					}
				}
				if oi == 0 {
					baseline = cur
				}
				l.Close()
			}
		}
		rep.ClassN(local)
		if si < 3 {
			rep.Sample(map[string]interface{}{"casketfile": casketfile(sites, allOrders[len(allOrders)-1], -1), "requests": "9 hosts x 8 paths x {HTTP/1.1,HTTP/2}"})
		}
		return true
	})
	// equivalent spellings of one address in one Casketfile: either refused as duplicates, or the routing is the same
	// whichever of the two is declared first
	for _, pair := range [][2]string{{"a.test:8080", "a.test:8080/"}, {"a.test:8080", "a.test:08080"}, {"a.test:8080", "A.TEST:8080"}, {"a.test:8080/p", "a.test:8080/p"},
		{":8080", "0.0.0.0:8080"}, {"*.test:8080", "*.TEST:8080/"}, {"http://a.test:8080", "a.test:8080"}, {"http://a.test:8080", "https://a.test:8080"}} {
		var outs [2]map[string]string
		var errs [2]error
		for o := 0; o < 2; o++ {
			first, second := pair[o], pair[1-o]
			tlsOff := func(a string) string { // (an https:// address without TLS is still the same host, port and path)
				if strings.HasPrefix(a, "https://") {
					return "\ttls off\n"
				}
				return ""
			}
			cf := fmt.Sprintf("%s {\n\theader / X-Site s%d\n\tstatus 204 /\n%s}\n%s {\n\theader / X-Site s%d\n\tstatus 204 /\n%s}\n", first, o, tlsOff(first), second, 1-o, tlsOff(second))
			l, err := kit.Load(cf, "/nonexistent/Casketfile")
			rep.Eval(1)
			errs[o] = err
			if err != nil {
				continue
			}
			outs[o] = map[string]string{}
			for _, srv := range l.Servers {
				for _, rh := range reqHosts {
					for _, rp := range reqPaths {
						rec, pv, _ := kit.ServeReq(srv, reqFor(rh, rp, 1))
						rep.Eval(1)
						outs[o][srv.Address()+" "+rh+" "+rp] = outcome(rec, pv, rh, 1)
					}
				}
			}
			l.Close()
		}
		switch {
		case errs[0] != nil && errs[1] != nil:
			rep.Class("equivalent-spellings/refused-as-duplicates")
		case (errs[0] == nil) != (errs[1] == nil):
			rep.Violation("C01/order-dependent/equivalent-spellings", fmt.Sprintf("sites %q and %q load in one declaration order and not in the other: %v / %v", pair[0], pair[1], errs[0], errs[1]), vcase{Casketfile: pair[0] + " + " + pair[1]})
		default:
			for k, v := range outs[0] {
				if outs[1][k] != v {
					rep.Violation("C01/order-dependent/equivalent-spellings", fmt.Sprintf("sites %q and %q: request %s is answered by %s when the first is declared first and by %s otherwise", pair[0], pair[1], k, v, outs[1][k]), vcase{Casketfile: pair[0] + " + " + pair[1]})
					break
				}
			}
			rep.Class("equivalent-spellings/accepted")
		}
	}
	// one site under several spellings of its address (a bare trailing slash, letter case, a leading zero in the port), alone and
	// next to a second site: the named host is answered by it, every other host by nobody (or by the second site)
	for _, spelling := range []string{"a.test:8080/", "a.test:8080", "A.Test:8080/", "a.test:08080/", "http://a.test:8080/"} {
		for _, second := range []string{"", "b.a.test:8080", "b.a.test:8080/"} {
			cf := fmt.Sprintf("%s {\n\theader / X-Site s0\n\tstatus 204 /\n}\n", spelling)
			if second != "" {
				cf += fmt.Sprintf("%s {\n\theader / X-Site s1\n\tstatus 204 /\n}\n", second)
			}
			l, err := kit.Load(cf, "/nonexistent/Casketfile")
			rep.Eval(1)
			if err != nil {
				rep.Violation("C01/unexpected-load-error", "a site address with a bare trailing slash failed to load: "+err.Error(), vcase{Casketfile: cf})
				continue
			}
			if len(l.Servers) != 1 {
				rep.Violation("C01/address-spelling/listeners", fmt.Sprintf("sites on one port ended up on %d listeners", len(l.Servers)), vcase{Casketfile: cf})
			}
			for _, tc := range []struct{ host, path, want string }{{"a.test:8080", "/", "s0"}, {"a.test", "/x", "s0"}, {"A.TEST:9", "/", "s0"}, {"nosuch.example", "/", "none"}, {"x.a.test", "/", "none"}, {"b.a.test", "/", "s1"}} {
				want := tc.want
				if want == "s1" && second == "" {
					want = "none"
				}
				for _, srv := range l.Servers {
					rec, pv, _ := kit.ServeReq(srv, reqFor(tc.host, tc.path, 1))
					rep.Eval(1)
					if got := outcome(rec, pv, tc.host, 1); got != want {
						rep.Violation("C01/address-spelling", fmt.Sprintf("site written %q (second site %q), Host %q path %s: got %s, want %s", spelling, second, tc.host, tc.path, got, want), vcase{cf, tc.host, tc.path, 1, got, want})
					}
				}
			}
			l.Close()
			rep.Class("address-spelling")
		}
	}
	// a site whose path prefix has bytes outside ASCII: clients send them percent-encoded
	for _, second := range []string{"", "a.test:8080"} {
		cf := "a.test:8080/caf\u00e9 {\n\theader / X-Site s0\n\tstatus 204 /\n}\n"
		if second != "" {
			cf += second + " {\n\theader / X-Site s1\n\tstatus 204 /\n}\n"
		}
		l, err := kit.Load(cf, "/nonexistent/Casketfile")
		rep.Eval(1)
		if err != nil {
			rep.Violation("C01/unexpected-load-error", "a site with a non-ASCII path prefix failed to load: "+err.Error(), vcase{Casketfile: cf})
			continue
		}
		other := "none"
		if second != "" {
			other = "s1"
		}
		for _, tc := range []struct{ path, want string }{{"/caf%C3%A9/menu", "s0"}, {"/caf%C3%A9", "s0"}, {"/cafe/menu", other}, {"/caf%C3%A8/menu", other}, {"/", other}} {
			rec, pv, _ := kit.ServeReq(l.Servers[0], reqFor("a.test:8080", tc.path, 1))
			rep.Eval(1)
			if got := outcome(rec, pv, "a.test:8080", 1); got != tc.want {
				rep.Violation("C01/non-ascii-path-prefix", fmt.Sprintf("site a.test:8080/caf\u00e9 (second site %q), path %s: got %s, want %s", second, tc.path, got, tc.want), vcase{cf, "a.test:8080", tc.path, 1, got, tc.want})
			}
		}
		l.Close()
		rep.Class("non-ascii-path-prefix")
	}
	// IPv6 literal sites: the port of the Host header is ignored for them too, and [::] is a catch-all
	for _, tc := range []struct {
		site  string
		hosts []string
		want  string
	}{
		{"[::1]:8080", []string{"[::1]:8080", "[::1]", "[::1]:9"}, "s0"},
		{"[::1]:8080", []string{"[::2]:8080", "x.test"}, "none"},
		{"[::]:8080", []string{"x.test", "[::1]:8080", "a.test:8080"}, "s0"},
		{"[2001:db8::A]:8080", []string{"[2001:DB8::a]:8080", "[2001:db8::a]"}, "s0"},
	} {
		cf := fmt.Sprintf("%s {\n\theader / X-Site s0\n\tstatus 204 /\n}\n", tc.site)
		l, err := kit.Load(cf, "/nonexistent/Casketfile")
		if err != nil {
			rep.Violation("C01/unexpected-load-error", "IPv6 literal site failed to load: "+err.Error(), vcase{Casketfile: cf})
			continue
		}
		for _, rh := range tc.hosts {
			rec, pv, _ := kit.ServeReq(l.Servers[0], reqFor(rh, "/", 1))
			rep.Eval(1)
			if got := outcome(rec, pv, rh, 1); got != tc.want {
				rep.Violation("C01/ipv6-literal-site", fmt.Sprintf("site %s, Host %q: got %s, want %s", tc.site, rh, got, tc.want), vcase{cf, rh, "/", 1, got, tc.want})
			}
		}
		l.Close()
		rep.Class("ipv6-literal-site")
	}
	rep.Finish()
}

var reqTemplates sync.Map

func reqFor(rh, rp string, proto int) *http.Request {
	key := fmt.Sprintf("%s %s %d", rh, rp, proto)
	t, ok := reqTemplates.Load(key)
	if !ok {
		r := kit.MustReq(kit.Get("GET", rp, rh))
		if proto == 2 {
			r.ProtoMajor, r.ProtoMinor, r.Proto = 2, 0, "HTTP/2.0"
		}
		t, _ = reqTemplates.LoadOrStore(key, r)
	}
	return t.(*http.Request).Clone(context.Background())
}

// outcome canonicalises a response: "sN" (exactly that site's marker),
// "none" (well-formed site-not-found), or "bad:..." for anything else.
func outcome(rec *kit.Rec, pv interface{}, reqHost string, proto int) string {
	if pv != nil {
		return fmt.Sprintf("bad:panic %v", pv)
	}
	marks := rec.Snap.Values("X-Site")
	wantStatus := 404
	if proto == 2 {
		wantStatus = 421
	}
	body := rec.Body.String()
	notFound := strings.Contains(body, "is not served on this interface")
	switch {
	case len(marks) == 1 && !notFound:
		return marks[0]
	case len(marks) == 0 && notFound:
		if rec.Status != wantStatus {
			return fmt.Sprintf("bad:not-found status %d", rec.Status)
		}
		if !strings.Contains(body, reqHost) {
			return "bad:not-found body does not name host"
		}
		return "none"
	case len(marks) == 0:
		// a site ran without our marker?  (static 404 from a site still carries the marker header)
		return fmt.Sprintf("bad:no marker, status %d", rec.Status)
	default:
		return fmt.Sprintf("bad:markers %v notFound=%v", marks, notFound)
	}
}
