// C15 — automatic HTTPS is applied exactly to qualifying sites, with redirects.
//
// The real Casketfile load including the real tls parsing callback
// (activateHTTPS) runs offline because certmagic's file storage under a
// scratch CASKETPATH is pre-seeded with long-lived certificates for every
// host name of the alphabet.
package main

import (
	"context"
	"encoding/json"
	"fmt"
	"net"
	"os"
	"path/filepath"
	"strings"
	"time"

	"github.com/caddyserver/certmagic"
	"github.com/tmpim/casket/caskethttp/httpserver"
	"verif/internal/kit"
)

type hostClass struct {
	host      string
	publicDNS bool // can receive a public certificate per the statement
}

var hostAlpha = []hostClass{
	{"example.com", true}, {"sub.example.com", true}, {"*.example.com", true},
	{"", false}, {"localhost", false}, {"a.localhost", false}, {"127.0.0.1", false}, {"10.0.0.1", false}, {"192.168.1.1", false}, {"[::1]", false},
	{"a.local", false}, {"a.test", false}, {"a.example", false}, {"a.invalid", false},
	{"127.example.com", true}, // a public name that merely begins like a loopback address
	// deeper names and wildcards under the internal-only suffixes
	{"app.staging.test", false}, {"www.shop.example", false}, {"a.b.c.invalid", false}, {"*.dev.test", false}, {"x.y.localhost", false}, {"a.b.local", false},
}

type tlsLine struct {
	name, line      string
	disablesManaged bool // off, manual, self-signed, email off
	enablesTLS      bool // enables TLS without management
	off             bool
	noRedirect      bool
}

type addrSpec struct {
	scheme, host, port string
	publicDNS          bool
	tl                 tlsLine
	portText           string // the port as written, when that differs from the number (080)
}

func (a addrSpec) String() string {
	s := a.scheme + a.host
	if a.portText != "" {
		s += ":" + a.portText
	} else if a.port != "" {
		s += ":" + a.port
	}
	return s
}

// refManaged is the statement's conjunction.
func (a addrSpec) refManaged() bool {
	return a.publicDNS && a.scheme != "http://" && a.port != "80" && !a.tl.disablesManaged
}

// refTLS: managed, or TLS explicitly enabled by the tls line - but never for plain-HTTP sites.
func (a addrSpec) refTLS() bool {
	if a.scheme == "http://" || a.port == "80" {
		return false
	}
	return a.refManaged() || a.tl.enablesTLS
}

func (a addrSpec) effPort() string {
	if a.port != "" {
		return a.port
	}
	switch {
	case a.scheme == "http://":
		return "80"
	case a.scheme == "https://":
		return "443"
	case a.refManaged():
		return "443"
	}
	return "2015"
}

type c15case struct {
	Casketfile string `json:"casketfile"`
	Site       string `json:"site,omitempty"`
	Got        string `json:"got"`
	Want       string `json:"want"`
}

func seed(dir string, names []string) {
	ca := kit.NewCA("verif acme stand-in")
	storage := &certmagic.FileStorage{Path: dir}
	issuerKey := certmagic.NewACMEIssuer(certmagic.NewDefault(), certmagic.ACMEIssuer{}).IssuerKey()
	ctx := context.Background()
	for i, n := range names {
		c, k, _ := ca.Leaf(int64(1000+i), n, []string{n}, false)
		meta, _ := json.Marshal(map[string]interface{}{"sans": []string{n}, "issuer_data": map[string]string{"url": "https://acme.invalid/cert/" + n}})
		must(storage.Store(ctx, certmagic.StorageKeys.SiteCert(issuerKey, n), c))
		must(storage.Store(ctx, certmagic.StorageKeys.SitePrivateKey(issuerKey, n), k))
		must(storage.Store(ctx, certmagic.StorageKeys.SiteMeta(issuerKey, n), meta))
	}
}

func must(err error) {
	if err != nil {
		panic(err)
	}
}

func main() {
	rep := kit.NewReport("C15", "exploration",
		"every single site and every pair (thorough: triples over a reduced alphabet) of site addresses over scheme {none, http://, https://} x 20 host classes x port {none, 80, 443, 8080} x 10 site bodies (tls lines, one or two per site; a bind line), loaded through the real Casketfile path including the real tls parsing callback with certmagic storage pre-seeded; per-site Managed/Enabled flags compared with the statement's conjunction, redirect sites enumerated and queried with 5 request targets (one in absolute form) x 2 Host forms; a declared plain-HTTP site next to HTTPS sites with paths; several HTTPS sites of one host that differ in their path; distinct_nontrivial = outcome classes")
	kit.Init()
	kit.Log.Off.Store(true)
	dir := kit.TempDir("c15")
	defer os.RemoveAll(dir)
	os.Setenv("CASKETPATH", dir)
	var names []string
	for _, h := range hostAlpha {
		if h.host != "" {
			names = append(names, strings.Trim(h.host, "[]"))
		}
	}
	seed(dir, names)
	ca := kit.NewCA("manual")
	certF, keyF := ca.WriteLeaf(dir, "manual", 7, "manual.test", []string{"manual.test", "example.com", "sub.example.com"})
	bundleDir := filepath.Join(dir, "bundles")
	{
		c, err1 := os.ReadFile(certF)
		k, err2 := os.ReadFile(keyF)
		if err1 != nil || err2 != nil {
			rep.Broken("certificate fixture: %v %v", err1, err2)
		}
		kit.WriteFile(bundleDir, "manual.pem", string(c)+string(k))
	}
	tlsLines := []tlsLine{
		{name: "none"},
		// no tls line, but the site binds a public address: whether the host qualifies does not depend on that
		{name: "none+bind-public-address", line: "bind 203.0.113.5"},
		{name: "off", line: "tls off", disablesManaged: true, off: true},
		{name: "email", line: "tls a@b.c", enablesTLS: true},
		{name: "self_signed", line: "tls self_signed", disablesManaged: true, enablesTLS: true},
		{name: "manual", line: "tls " + certF + " " + keyF, disablesManaged: true, enablesTLS: true},
		{name: "email2", line: "tls x@y.z", enablesTLS: true},
		{name: "no_redirect", line: "tls {\n\t\tno_redirect\n\t}", noRedirect: true, enablesTLS: true},
		// a site's own certificate followed by a second tls line that only sets options
		{name: "manual+options", line: "tls " + certF + " " + keyF + "\n\ttls {\n\t\tprotocols tls1.2 tls1.3\n\t}", disablesManaged: true, enablesTLS: true},
		{name: "load-dir+options", line: "tls {\n\t\tload " + bundleDir + "\n\t}\n\ttls {\n\t\tprotocols tls1.2 tls1.3\n\t}", disablesManaged: true, enablesTLS: true},
	}
	var addrs []addrSpec
	for _, sc := range []string{"", "http://", "https://"} {
		for _, h := range hostAlpha {
			for _, port := range []string{"", "80", "443", "8080"} {
				if (sc == "http://" && port == "443") || (sc == "https://" && port == "80") {
					continue // rejected by address parsing ("scheme and port violate convention")
				}
				if h.host == "" && port == "" {
					continue // an address needs a host or a port
				}
				for _, tl := range tlsLines {
					addrs = append(addrs, addrSpec{sc, h.host, port, h.publicDNS, tl, ""})
					if port == "80" && h.host == "example.com" {
						addrs = append(addrs, addrSpec{sc, h.host, port, h.publicDNS, tl, "080"}) // the same port with a leading zero
					}
				}
			}
		}
	}
	rep.Set("site_addresses", len(addrs))
	checkGroup := func(group []addrSpec) {
		var b strings.Builder
		for _, a := range group {
			fmt.Fprintf(&b, "%s {\n", a.String())
			if a.tl.line != "" {
				fmt.Fprintf(&b, "\t%s\n", a.tl.line)
			}
			b.WriteString("\tstatus 204 /\n}\n")
		}
		cf := b.String()
		done := make(chan struct{})
		var l *kit.Loaded
		var err error
		go func() {
			l, err = kit.Load(cf, filepath.Join(dir, "Casketfile"))
			close(done)
		}()
		select {
		case <-done:
		case <-time.After(30 * time.Second):
			rep.Violation("C15/load-blocks(tries-to-obtain-a-certificate?)", "loading did not finish in 30 s: a certificate is being obtained for a host although storage holds one for every qualifying name", c15case{Casketfile: cf})
			rep.Capped("a load blocked; stopping")
			rep.Finish()
		}
		rep.Eval(1)
		if err != nil {
			rep.Class("load-rejected")
			return
		}
		defer l.Close()
		// collect sites
		type found struct {
			cfg  *httpserver.SiteConfig
			srv  *httpserver.Server
			port string
		}
		var all []found
		for _, s := range l.Servers {
			_, port, _ := net.SplitHostPort(s.Address())
			for _, sc := range s.VerifSites() {
				all = append(all, found{sc, s, port})
			}
		}
		for _, a := range group {
			host := strings.ToLower(a.host)
			var mine *found
			for i := range all {
				if all[i].cfg.Addr.Original == a.String() {
					mine = &all[i]
				}
			}
			if mine == nil {
				rep.Violation("C15/declared-site-missing", "a declared site is not among the resulting sites", c15case{cf, a.String(), "", ""})
				continue
			}
			t := mine.cfg.TLS
			if t.Managed != a.refManaged() {
				kind := "managed-although-not-qualifying"
				if !t.Managed {
					kind = "qualifying-site-not-managed"
				}
				rep.Violation("C15/"+kind+"/tls="+a.tl.name, fmt.Sprintf("site %s: Managed=%v, the statement's conjunction says %v", a, t.Managed, a.refManaged()), c15case{cf, a.String(), fmt.Sprint(t.Managed), fmt.Sprint(a.refManaged())})
			}
			if (a.scheme == "http://" || a.port == "80") && t.Enabled {
				rep.Violation("C15/plain-http-site-has-tls", fmt.Sprintf("site %s is declared as plain HTTP but ends up with TLS enabled", a), c15case{cf, a.String(), "Enabled=true", "Enabled=false"})
			}
			if t.Enabled != a.refTLS() && !(a.scheme == "http://" || a.port == "80") {
				rep.Violation("C15/tls-enabled-mismatch/tls="+a.tl.name, fmt.Sprintf("site %s: TLS enabled=%v, expected %v", a, t.Enabled, a.refTLS()), c15case{cf, a.String(), fmt.Sprint(t.Enabled), fmt.Sprint(a.refTLS())})
			}
			if t.Managed {
				rep.Class("managed")
			} else if t.Enabled {
				rep.Class("tls-unmanaged")
			} else {
				rep.Class("plaintext")
			}
			// redirect site expectation: an HTTPS site without a plaintext site of its own on the HTTP port
			if !t.Enabled {
				if a.effPort() == "80" {
					for _, f := range all {
						if f.port == "80" && f.cfg != mine.cfg && strings.EqualFold(strings.Trim(f.cfg.Addr.Host, "[]"), strings.Trim(host, "[]")) {
							declared := false
							for _, o := range group {
								if f.cfg.Addr.Original == o.String() {
									declared = true
								}
							}
							if !declared {
								rep.Violation("C15/redirect-site-shadows-declared-http-site", fmt.Sprintf("the plain-HTTP site %s shares its address with a synthesised redirect site", a), c15case{cf, a.String(), "redirect site on the same host:80", "none"})
							}
						}
					}
				}
				continue
			}
			ownPlain := false
			for _, o := range group {
				if strings.ToLower(o.host) == host && o.effPort() == "80" {
					ownPlain = true
				}
			}
			var redirs []found
			for _, f := range all {
				if f.port == "80" && strings.EqualFold(strings.Trim(f.cfg.Addr.Host, "[]"), strings.Trim(host, "[]")) && f.cfg.Addr.Original != "" {
					declared := false
					for _, o := range group {
						if f.cfg.Addr.Original == o.String() {
							declared = true
						}
					}
					if !declared {
						redirs = append(redirs, f)
					}
				}
			}
			wantRedir := !ownPlain && !a.tl.noRedirect
			// the statement does not say what happens when the same host also has another HTTPS site on 443: skip those
			other443 := false
			for _, o := range group {
				if o.String() != a.String() && strings.ToLower(o.host) == host && (o.refTLS() || o.effPort() == "443") {
					other443 = true
				}
			}
			if other443 {
				continue
			}
			if wantRedir && len(redirs) != 1 {
				rep.Violation("C15/redirect-site-count", fmt.Sprintf("HTTPS site %s without a plaintext site of its own has %d synthesised redirect sites, want 1", a, len(redirs)), c15case{cf, a.String(), fmt.Sprint(len(redirs)), "1"})
				continue
			}
			if !wantRedir && len(redirs) != 0 {
				rep.Violation("C15/unwanted-redirect-site", fmt.Sprintf("site %s (own plaintext site=%v, no_redirect=%v) got %d redirect sites", a, ownPlain, a.tl.noRedirect, len(redirs)), c15case{cf, a.String(), fmt.Sprint(len(redirs)), "0"})
				continue
			}
			if !wantRedir {
				continue
			}
			rs := redirs[0]
			if strings.HasPrefix(host, "[") {
				continue // IPv6 literals are outside the routing alphabet (see C01)
			}
			reqHosts := []string{strings.Replace(host, "*", "w", 1)}
			if host == "" {
				reqHosts = []string{"anything.example.org", "[2001:db8::3]"} // a catch-all redirect site also sees IPv6 literals
			}
			wantPort := mine.cfg.Addr.Port
			for _, reqHost := range reqHosts {
				for _, hostHdr := range []string{reqHost, net.JoinHostPort(strings.Trim(reqHost, "[]"), "80")} {
					for _, uri := range []string{"/", "/a/b?x=1&y=2", "/%2F?", "//x", "ABS/p/q?z=1"} {
						target := uri
						if strings.HasPrefix(uri, "ABS") {
							// an absolute-form request target naming this host: the redirect keeps its path and query
							uri = strings.TrimPrefix(uri, "ABS")
							target = "http://" + hostHdr + uri
						}
						rec, pv, err := kit.Serve(rs.srv, kit.Get("GET", target, hostHdr))
						if err != nil {
							continue
						}
						rep.Eval(1)
						if pv != nil {
							rep.Violation("C15/panic", fmt.Sprint(pv), c15case{cf, a.String(), "", ""})
							continue
						}
						h := strings.Trim(reqHost, "[]")
						want := "https://" + reqHost
						if wantPort != "443" {
							want = "https://" + net.JoinHostPort(h, wantPort)
						}
						want += uri
						loc := rec.Snap.Get("Location")
						if rec.Status != 301 || loc != want {
							kind := "wrong-redirect-target"
							if a.port == "" && !t.Managed {
								kind = "wrong-redirect-target/unmanaged-tls-site-on-the-default-port"
							}
							if strings.HasPrefix(loc, "http://") || strings.Contains(loc, ":80/") || strings.HasSuffix(loc, ":80") {
								kind = "redirect-points-back-at-http"
							}
							rep.Violation("C15/"+kind, fmt.Sprintf("redirect site for %s answered %d Location %q to Host %q URI %q", a, rec.Status, loc, hostHdr, uri), c15case{cf, a.String(), fmt.Sprintf("%d %s", rec.Status, loc), "301 " + want})
						}
						rep.Class("redirect-checked")
					}
				}
			}
		}
	}
	// singles
	for _, a := range addrs {
		if rep.Expired() {
			rep.Capped("deadline")
			break
		}
		checkGroup([]addrSpec{a})
	}
	// pairs: redirect synthesis depends on pairs of sites with related hosts and ports
	pairHosts := map[string]bool{"example.com": true, "sub.example.com": true, "*.example.com": true, "": true, "localhost": true, "a.test": true}
	var pa []addrSpec
	for _, a := range addrs {
		if pairHosts[a.host] && (a.tl.name == "none" || a.tl.name == "off" || a.tl.name == "manual" || a.tl.name == "self_signed" || (rep.Thorough() && a.tl.name != "email2")) {
			pa = append(pa, a)
		}
	}
	rep.Set("pair_alphabet", len(pa))
	for i := range pa {
		for j := i + 1; j < len(pa); j++ {
			if rep.Expired() {
				rep.Capped("deadline")
				break
			}
			if pa[i].String() == pa[j].String() {
				continue
			}
			// keep pairs that can interact: same host, or one of them a catch-all/wildcard
			if pa[i].host != pa[j].host && !rep.Thorough() {
				continue
			}
			checkGroup([]addrSpec{pa[i], pa[j]})
		}
	}
	rep.Sample(map[string]interface{}{"casketfile": "example.com {\n\tstatus 204 /\n}\nhttp://example.com:8080 {\n\ttls off\n\tstatus 204 /\n}\n", "redirect_requests": []string{"GET / Host: example.com", "GET /a/b?x=1&y=2 Host: example.com:80"}})
	// several HTTPS sites of one host that differ in their path (and none on the HTTP port): the host still gets its redirect
	// a declared plain-HTTP site of the host next to an HTTPS site of the host with a path: no redirect site takes its place
	for _, pair := range [][2]string{{"http://example.com", "https://example.com/app"}, {"http://example.com/", "https://example.com"}, {"http://example.com/docs", "https://example.com/app"}} {
		for o := 0; o < 2; o++ {
			blocks := []string{fmt.Sprintf("%s {\n\theader / X-Site plain\n\tstatus 204 /\n}\n", pair[0]), fmt.Sprintf("%s {\n\theader / X-Site secure\n\tstatus 204 /\n}\n", pair[1])}
			cf := blocks[o] + blocks[1-o]
			l, err := kit.Load(cf, filepath.Join(dir, "Casketfile"))
			rep.Eval(1)
			if err != nil {
				rep.Class("declared-http-site-next-to-path-sites/refused")
				continue
			}
			for _, srv := range l.Servers {
				if _, p, _ := net.SplitHostPort(srv.Address()); p != "80" {
					continue
				}
				for _, uri := range []string{"/", "/docs/x", "/app/x"} {
					rec, pv, _ := kit.Serve(srv, kit.Get("GET", uri, "example.com"))
					rep.Eval(1)
					declaredPath := strings.TrimSuffix(strings.TrimPrefix(pair[0], "http://example.com"), "/")
					inDeclared := declaredPath == "" || strings.HasPrefix(uri, declaredPath)
					if pv != nil || (inDeclared && (rec.Status == 301 || rec.Snap.Get("X-Site") != "plain")) {
						rep.Violation("C15/redirect-site-shadows-declared-http-site/path-sites", fmt.Sprintf("GET %s on port 80 with the declared site %s: status %d X-Site %q Location %q, want the declared site's answer", uri, pair[0], rec.Status, rec.Snap.Get("X-Site"), rec.Snap.Get("Location")), c15case{cf, pair[0], fmt.Sprintf("%d %s", rec.Status, rec.Snap.Get("Location")), "204 from the declared site"})
					}
				}
			}
			l.Close()
			rep.Class("declared-http-site-next-to-path-sites")
		}
	}
	for _, paths := range [][]string{{"/app", "/api"}, {"", "/api"}, {"/app", "/api", "/x"}} {
		for _, port := range []string{"", ":443"} {
			var b strings.Builder
			for i, p := range paths {
				fmt.Fprintf(&b, "example.com%s%s {\n\theader / X-Site s%d\n\tstatus 204 /\n}\n", port, p, i)
			}
			cf := b.String()
			l, err := kit.Load(cf, filepath.Join(dir, "Casketfile"))
			rep.Eval(1)
			if err != nil {
				rep.Violation("C15/path-sites/load", "sites of one host that differ in their path failed to load: "+err.Error(), c15case{Casketfile: cf})
				continue
			}
			n := 0
			var redirSrv *httpserver.Server
			for _, srv := range l.Servers {
				_, p, _ := net.SplitHostPort(srv.Address())
				for _, sc := range srv.VerifSites() {
					if p == "80" && strings.EqualFold(sc.Addr.Host, "example.com") {
						n++
						redirSrv = srv
					}
				}
			}
			if n == 0 {
				rep.Violation("C15/redirect-site-count/path-sites", fmt.Sprintf("%d HTTPS sites of example.com that differ in their path, none on the HTTP port: the host has no synthesised redirect site", len(paths)), c15case{cf, "example.com", "0", ">=1"})
			} else {
				for _, uri := range []string{"/", "/app/x?q=1", "/api", "/other"} {
					rec, pv, _ := kit.Serve(redirSrv, kit.Get("GET", uri, "example.com"))
					rep.Eval(1)
					if pv != nil || rec.Status != 301 || rec.Snap.Get("Location") != "https://example.com"+uri {
						rep.Violation("C15/wrong-redirect-target/path-sites", fmt.Sprintf("GET %s on the redirect site of example.com: status %d Location %q, want 301 https://example.com%s", uri, rec.Status, rec.Snap.Get("Location"), uri), c15case{cf, "example.com", rec.Snap.Get("Location"), "https://example.com" + uri})
					}
				}
			}
			l.Close()
			rep.Class("path-sites-of-one-host")
		}
	}
	rep.Finish()
}
