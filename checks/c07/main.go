// C07 — reloading the configuration never drops or misroutes a request.
//
// Real casket.Start on loopback with two listen addresses; two clients whose
// dial / send / receive steps are placed at every combination of positions
// relative to the gates of a reload (before, old OnRestart, new OnStartup,
// new listener about to serve, old OnShutdown, after return), for successful
// reloads and reloads failing at parse, setup, startup callback and listen.
package main

import (
	"bufio"
	"fmt"
	"io"
	"net"
	"net/http"
	"os"
	"path/filepath"
	"runtime"
	"sort"
	"strings"
	"sync"
	"sync/atomic"
	"time"

	"github.com/tmpim/casket"
	"github.com/tmpim/casket/caskethttp/httpserver"
	"verif/internal/kit"
)

const (
	posBefore = iota
	posRestartCB
	posNewStartup
	posNewListener
	posOldShutdown
	posAfter
	nPos
)

var gateName = []string{"before", "old-OnRestart", "new-OnStartup", "new-listener-wrapped", "old-OnShutdown", "after-return"}

// Positions of an execution with R reloads: 0 = before, then five per reload (1+5r .. 5+5r).
const maxReloads = 2
const maxPos = 1 + 5*maxReloads

func posName(p int) string {
	if p == 0 {
		return gateName[0]
	}
	return fmt.Sprintf("%s#%d", gateName[(p-1)%5+1], (p-1)/5+1)
}

type clientPlan struct{ dial, send, recv int }

type client struct {
	port   int
	conn   net.Conn
	plan   clientPlan
	host   string // "" = 127.0.0.1
	result string // "" until received
	err    string
	sent   bool
}

func (c *client) step(s string) {
	switch s {
	case "dial":
		host := c.host
		if host == "" {
			host = "127.0.0.1"
		}
		conn, err := net.DialTimeout("tcp", fmt.Sprintf("%s:%d", host, c.port), 3*time.Second)
		if err != nil {
			c.err = "dial: " + err.Error()
			return
		}
		c.conn = conn
	case "send":
		if c.conn == nil {
			return
		}
		c.conn.SetDeadline(time.Now().Add(10 * time.Second))
		hostHdr := c.host
		if hostHdr == "" {
			hostHdr = "127.0.0.1"
		}
		if _, err := c.conn.Write([]byte("GET /ok HTTP/1.1\r\nHost: " + hostHdr + "\r\nConnection: close\r\n\r\n")); err != nil {
			c.err = "send: " + err.Error()
		}
		c.sent = true
	case "recv":
		if c.conn == nil || c.err != "" {
			return
		}
		resp, err := http.ReadResponse(bufio.NewReader(c.conn), nil)
		if err != nil {
			c.err = "recv: " + err.Error()
			return
		}
		resp.Body.Close()
		c.result = fmt.Sprintf("%d %s", resp.StatusCode, resp.Header.Get("X-V"))
		c.conn.Close()
	}
}

// explorer state shared with the gate callbacks (one execution at a time)
var (
	reloading bool
	curReload int // index of the reload in progress
	doneAt    [maxPos]bool
	clients   []*client
	reached   []string
)

func runPosition(p int) {
	if doneAt[p] {
		return
	}
	doneAt[p] = true
	reached = append(reached, posName(p))
	for _, c := range clients {
		if c.plan.dial == p {
			c.step("dial")
		}
	}
	for _, c := range clients {
		if c.plan.send == p {
			c.step("send")
		}
	}
	for _, c := range clients {
		if c.plan.recv == p {
			c.step("recv")
		}
	}
	// let the accept loops take the connections made at this position and park again before the reload
	// proceeds: see DESIGN.md (C07, hand-over race) for what happens otherwise
	time.Sleep(settle)
}

const settle = 4 * time.Millisecond

func gate(p int) func() error {
	return func() error {
		if reloading {
			// positions are visited in order; a position whose gate is not reached in this kind of reload is run at the next one
			for q := 5*curReload + 1; q <= 5*curReload+p; q++ {
				runPosition(q)
			}
		}
		return nil
	}
}

func init() {
	httpserver.RegisterDevDirective("verif_gate", "")
	casket.RegisterPlugin("verif_gate", casket.Plugin{ServerType: "http", Action: func(c *casket.Controller) error {
		failStartup := false
		for c.Next() {
			for _, a := range c.RemainingArgs() {
				if a == "fail-startup" {
					failStartup = true
				} else {
					return c.Errf("verif_gate: bad argument %s", a)
				}
			}
		}
		c.OnRestart(gate(posRestartCB))
		c.OnStartup(func() error {
			gate(posNewStartup)()
			if failStartup {
				return fmt.Errorf("startup callback failure injected")
			}
			return nil
		})
		c.OnShutdown(gate(posOldShutdown))
		httpserver.GetConfig(c).AddListenerMiddleware(func(l casket.Listener) casket.Listener {
			gate(posNewListener)()
			return l
		})
		return nil
	}})
}

// verif_hold: a handler for /slow that reports its entry, waits for its release and then answers 200 "slow-done".
var (
	holdEntered = make(chan struct{}, 16)
	holdRelease = make(chan struct{})
	holdMu      sync.Mutex
)

type holdHandler struct{ next httpserver.Handler }

func (h holdHandler) ServeHTTP(w http.ResponseWriter, r *http.Request) (int, error) {
	if r.URL.Path != "/slow" {
		return h.next.ServeHTTP(w, r)
	}
	holdMu.Lock()
	rel := holdRelease
	holdMu.Unlock()
	holdEntered <- struct{}{}
	<-rel
	w.WriteHeader(200)
	w.Write([]byte("slow-done"))
	return 0, nil
}

func init() {
	httpserver.RegisterDevDirective("verif_hold", "")
	casket.RegisterPlugin("verif_hold", casket.Plugin{ServerType: "http", Action: func(c *casket.Controller) error {
		for c.Next() {
		}
		httpserver.GetConfig(c).AddMiddleware(func(next httpserver.Handler) httpserver.Handler { return holdHandler{next} })
		return nil
	}})
}

func listenFDs(port int) int { return kit.ListeningFDs()[port] }

func probe(port int) string { return probeAt("", port) }

func probeAt(host string, port int) string {
	c := &client{port: port, host: host}
	c.step("dial")
	c.step("send")
	c.step("recv")
	if c.err != "" {
		return c.err
	}
	return c.result
}

type c07case struct {
	Reload   string   `json:"reload"`
	Clients  []string `json:"client_step_positions"`
	Reached  []string `json:"positions_reached"`
	Observed []string `json:"observed"`
	Problem  string   `json:"problem"`
}

func keys(m map[string]bool) []string {
	var l []string
	for k := range m {
		l = append(l, k)
	}
	sort.Strings(l)
	return l
}

func main() {
	rep := kit.NewReport("C07", "model_checking",
		"(1) two clients (one per listen address) x every non-decreasing placement of dial / send / receive over 6 positions of a reload (before, old OnRestart, new OnStartup, new listener about to serve, old OnShutdown, after return) - all 56 placements for each client (3136 pairs) - x 5 reload kinds (ok, failing at parse, setup, startup callback, listen), on a real casket.Start/Instance.Restart over loopback sockets; every client must receive one complete response from the old or the new configuration (new if it dialled after a successful return, old after a failed reload), and after every execution the descriptors of the listening sockets and fresh probes must show exactly the expected configuration; (2) two reloads in a row (pairs of kinds; quick: 4 pairs of kinds and 3 straddling plans, thorough: all 25 pairs and 6 straddling plans) with one client at every placement over the 11 positions and the other straddling both reloads: a client must be answered by a configuration in force between its dial and its answer; (3) a site on an ephemeral port (:0) through 5 sequences of reloads: the port picked at start keeps answering; (4) reloads of an unchanged Casketfile text whose imported file or environment value changed; (5) reloads that change the addresses a site binds on one port; (6) a reload while a request is still being handled, with a grace period of zero and of 40 ms; distinct_nontrivial = outcome classes")
	if !rep.IsWorker() {
		rep.Assume("interleavings inside net/http's accept/serve loops and the kernel backlog are not enumerated (whoever accepts serves its own configuration); client steps run while the reload is held inside its own callbacks")
		rep.RunWorkers(16)
		rep.Set("traces_validated_against_impl", rep.Evals())
		rep.Set("trace_validation", "every explored interleaving is an execution of the real implementation (casket.Start, Instance.Restart, net/http over loopback)")
		rep.Finish()
	}
	runtime.GOMAXPROCS(2)
	kit.Init()
	httpserver.GracefulTimeout = 40 * time.Millisecond
	dir := kit.TempDir("c07")
	defer os.RemoveAll(dir)
	// three consecutive loopback ports of this worker's own: the third is held for the whole run (it is the "busy" port of the
	// reloads that fail at listen, and it marks the block as taken for other runs of this check on the machine)
	var p0, p1, pBusy int
	var busy net.Listener
	for k := 0; busy == nil && k < 200; k++ {
		base := 19000 + *kit.FlagWorker*8 + k*160
		l, err := net.Listen("tcp", fmt.Sprintf("127.0.0.1:%d", base+2))
		if err != nil {
			continue
		}
		free := true
		for _, p := range []int{base, base + 1} {
			if t, err := net.Listen("tcp", fmt.Sprintf("127.0.0.1:%d", p)); err == nil {
				t.Close()
			} else {
				free = false
			}
		}
		if !free {
			l.Close()
			continue
		}
		busy, p0, p1, pBusy = l, base, base+1, base+2
	}
	if busy == nil {
		rep.Broken("no block of three free loopback ports found from 19000 upwards")
	}
	defer busy.Close()
	config := func(v int, kind string) string {
		gateLine := "verif_gate"
		if kind == "startup" {
			gateLine = "verif_gate fail-startup"
		}
		s := ""
		for _, p := range []int{p0, p1} {
			s += fmt.Sprintf("127.0.0.1:%d {\n\theader / X-V v%d\n\tstatus 204 /ok\n\t%s\n", p, v, gateLine)
			if kind == "setup" {
				s += "\tbasicauth /only-one-argument\n"
			}
			s += "}\n"
		}
		switch kind {
		case "parse":
			s += "{\n"
		case "listen":
			s += fmt.Sprintf("127.0.0.1:%d {\n\tstatus 204 /ok\n}\n", pBusy)
		}
		return s
	}
	mkPlans := func(nPos int) (plans []clientPlan) {
		for d := 0; d < nPos; d++ {
			for s := d; s < nPos; s++ {
				for r := s; r < nPos; r++ {
					plans = append(plans, clientPlan{d, s, r})
				}
			}
		}
		return
	}
	kinds := []string{"ok", "parse", "setup", "startup", "listen"}
	states := map[string]bool{}
	// watchdog: an execution that does not finish within 90 s is reported as a hang and ends the worker
	var execStart atomic.Int64
	var execDesc atomic.Pointer[string]
	go func() {
		for {
			time.Sleep(time.Second)
			if st := execStart.Load(); st != 0 && time.Now().UnixNano()-st > int64(90*time.Second) {
				rep.Violation("C07/hang", "an execution (start, reload with client steps, stop) did not finish within 90 s", c07case{Problem: *execDesc.Load()})
				rep.Capped("worker stopped after a hang")
				rep.Finish()
			}
		}
	}()
	var transitions int64
	// one execution: start v1, then the reloads of seq (configuration v2, v3, ...) with the client steps placed
	// at their positions, then the checks of the final state and Stop
	execute := func(seq []string, pl0, pl1 clientPlan, sample bool) {
		nP := 1 + 5*len(seq)
		label := strings.Join(seq, ",")
		desc := fmt.Sprintf("reloads=%s client0=%v client1=%v", label, pl0, pl1)
		execDesc.Store(&desc)
		execStart.Store(time.Now().UnixNano())
		in1 := casket.CasketfileInput{Contents: []byte(config(1, "")), Filepath: filepath.Join(dir, "Casketfile"), ServerTypeName: "http"}
		reloading = false
		inst, err := casket.Start(in1)
		if err != nil {
			if rep.ViolationCount() > 0 {
				// an earlier execution left listeners behind (already reported): this worker cannot continue
				rep.Capped("worker stopped: ports still bound after a reported violation")
				rep.Finish()
			}
			rep.Broken("initial start: %v", err)
		}
		clients = []*client{{port: p0, plan: pl0}, {port: p1, plan: pl1}}
		doneAt = [maxPos]bool{}
		reached = nil
		runPosition(0)
		// verAt[p]: the configuration versions that may answer a connection made at position p
		// (the current one, and the one a successful reload is installing while p lies inside it)
		cur := 1
		verAt := make([][]int, nP)
		verAt[0] = []int{1}
		var problems []string
		for r, kind := range seq {
			curReload = r
			reloading = true
			in2 := casket.CasketfileInput{Contents: []byte(config(r+2, kind)), Filepath: filepath.Join(dir, "Casketfile"), ServerTypeName: "http"}
			ni, rerr := inst.Restart(in2)
			reloading = false
			for q := 5*r + 1; q <= 5*r+5; q++ {
				runPosition(q) // positions whose gates were not reached, then "after return"
			}
			ok := rerr == nil
			if ok != (kind == "ok") {
				problems = append(problems, fmt.Sprintf("reload/%s: Restart #%d returned error=%v", kind, r+1, rerr))
			}
			for q := 5*r + 1; q <= 5*r+4; q++ {
				verAt[q] = []int{cur}
				if kind == "ok" {
					verAt[q] = append(verAt[q], r+2)
				}
			}
			if ok {
				inst = ni
			}
			if kind == "ok" {
				cur = r + 2
			}
			verAt[5*r+5] = []int{cur}
		}
		rep.Eval(1)
		transitions += int64(nP)
		var obs []string
		for ci, c := range clients {
			o := c.result
			if c.err != "" {
				o = c.err
			}
			obs = append(obs, fmt.Sprintf("client%d(dial@%s,send@%s,recv@%s): %s", ci, posName(c.plan.dial), posName(c.plan.send), posName(c.plan.recv), o))
			// a connection made at position d and answered by position e is served by whoever accepts it in between
			allowed := map[string]bool{}
			for q := c.plan.dial; q <= c.plan.recv; q++ {
				for _, v := range verAt[q] {
					allowed[fmt.Sprintf("204 v%d", v)] = true
				}
			}
			switch {
			case c.err != "":
				problems = append(problems, fmt.Sprintf("request-lost: client %d (%s)", ci, c.err))
			case !strings.HasPrefix(c.result, "204 v"):
				problems = append(problems, fmt.Sprintf("malformed-response: client %d got %q", ci, c.result))
			case !allowed[c.result]:
				problems = append(problems, fmt.Sprintf("answered-by-a-configuration-not-in-force: client %d got %q, configurations in force between its dial and its answer: %v", ci, c.result, keys(allowed)))
			}
		}
		want := fmt.Sprintf("204 v%d", cur)
		for _, p := range []int{p0, p1} {
			if n := listenFDs(p); n != 1 {
				problems = append(problems, fmt.Sprintf("listener-descriptors: port %d is held by %d descriptors after the reload returned, want 1", p, n))
			}
			for k := 0; k < 4; k++ {
				if got := probe(p); got != want {
					problems = append(problems, fmt.Sprintf("probe-after-reload: port %d answered %q, want %q", p, got, want))
					break
				}
			}
		}
		casket.Stop()
		for _, p := range []int{p0, p1} {
			if n := listenFDs(p); n != 0 {
				problems = append(problems, fmt.Sprintf("listener-left-open-after-stop: port %d still has %d listening descriptors", p, n))
			}
		}
		execStart.Store(0)
		states[fmt.Sprintf("%s|%v|%v", label, reached, obs)] = true
		if len(problems) > 0 {
			kindSig := strings.SplitN(problems[0], ":", 2)[0]
			rep.Violation("C07/"+kindSig+"/reload="+label, strings.Join(problems, "; "), c07case{label, []string{fmt.Sprint(pl0), fmt.Sprint(pl1)}, reached, obs, strings.Join(problems, "; ")})
		}
		rep.Class(fmt.Sprintf("reload=%s/c0:%s/c1:%s", label, clients[0].result, clients[1].result))
		if sample {
			rep.Sample(map[string]interface{}{"reloads": seq, "positions_reached": reached, "observed": obs})
		}
		// instances that failed to stop cleanly must not leak into the next execution
		if n := len(casket.Instances()); n != 0 {
			rep.Broken("instances left after Stop: %d", n)
		}
	}
	item := 0
	next := func() bool {
		item++
		if !rep.Mine(item) {
			return false
		}
		if rep.Expired() {
			rep.Capped("deadline")
			rep.Finish()
		}
		return true
	}
	// (1) one reload: every pair of client plans x every reload kind
	plans := mkPlans(6)
	for _, kind := range kinds {
		for _, pl0 := range plans {
			if !next() {
				continue
			}
			for _, pl1 := range plans {
				if only := os.Getenv("C07_ONLY"); only != "" && only != fmt.Sprintf("%s:%v:%v", kind, pl0, pl1) {
					continue
				}
				execute([]string{kind}, pl0, pl1, kind == "ok" && pl0 == (clientPlan{posRestartCB, posNewListener, posOldShutdown}) && pl1 == plans[0])
			}
		}
	}
	// (2) two reloads in a row, every pair of kinds: one client takes every placement over the 11 positions,
	// the other one of a few plans that straddle both reloads (quick: successful/failed pairs with a reduced plan set)
	plans2 := mkPlans(11)
	straddle := []clientPlan{{0, 0, 0}, {0, 3, 10}, {2, 6, 9}, {4, 8, 8}, {5, 5, 10}, {7, 9, 10}}
	for _, k1 := range kinds {
		for _, k2 := range kinds {
			if !rep.Thorough() && !((k1 == "ok" || k1 == "startup") && (k2 == "ok" || k2 == "listen")) {
				continue
			}
			for pi, pl0 := range plans2 {
				if !next() {
					continue
				}
				for si, pl1 := range straddle {
					if !rep.Thorough() && si%2 != 0 {
						continue
					}
					execute([]string{k1, k2}, pl0, pl1, k1 == "ok" && k2 == "ok" && pi == 150 && si == 2)
				}
			}
		}
	}
	// (3) a site on an ephemeral port (address :0): the socket the kernel picked is handed over like any other
	if next() {
		cfg0 := func(v int, kind string) string {
			gateLine := "verif_gate"
			if kind == "startup" {
				gateLine = "verif_gate fail-startup"
			}
			s := fmt.Sprintf("127.0.0.1:0 {\n\theader / X-V v%d\n\tstatus 204 /ok\n\t%s\n}\n", v, gateLine)
			if kind == "parse" {
				s += "{\n"
			}
			return s
		}
		for _, seq := range [][]string{{"ok"}, {"parse", "ok"}, {"startup", "ok"}, {"ok", "ok"}, {"ok", "startup"}} {
			before := kit.ListeningFDs()
			reloading = false
			inst, err := casket.Start(casket.CasketfileInput{Contents: []byte(cfg0(1, "")), Filepath: filepath.Join(dir, "Casketfile"), ServerTypeName: "http"})
			if err != nil {
				rep.Broken("ephemeral port: start: %v", err)
			}
			port := 0
			for p := range kit.ListeningFDs() {
				if before[p] == 0 && p != p0 && p != p1 && p != pBusy {
					port = p
				}
			}
			var problems []string
			if port == 0 {
				rep.Broken("ephemeral port: no new listening socket after start")
			}
			cur := 1
			for r, kind := range seq {
				ni, rerr := inst.Restart(casket.CasketfileInput{Contents: []byte(cfg0(r+2, kind)), Filepath: filepath.Join(dir, "Casketfile"), ServerTypeName: "http"})
				if (rerr == nil) != (kind == "ok") {
					problems = append(problems, fmt.Sprintf("reload/%s: Restart #%d returned error=%v", kind, r+1, rerr))
				}
				if rerr == nil {
					inst, cur = ni, r+2
				}
				n := listenFDs(port)
				for w := 0; n != 1 && w < 100; w++ { // the old instance closes its copy while it drains: allow it two seconds
					time.Sleep(20 * time.Millisecond)
					n = listenFDs(port)
				}
				if n != 1 {
					problems = append(problems, fmt.Sprintf("listener-descriptors: the port picked at start (%d) is held by %d descriptors after reload #%d, want 1", port, n, r+1))
				}
				if got, want := probe(port), fmt.Sprintf("204 v%d", cur); got != want {
					problems = append(problems, fmt.Sprintf("probe-after-reload: the port picked at start answered %q after reload #%d, want %q", got, r+1, want))
				}
			}
			rep.Eval(1)
			transitions += int64(len(seq))
			casket.Stop()
			if n := listenFDs(port); n != 0 {
				problems = append(problems, fmt.Sprintf("listener-left-open-after-stop: port %d still has %d listening descriptors", port, n))
			}
			if len(problems) > 0 {
				rep.Violation("C07/ephemeral-port/"+strings.SplitN(problems[0], ":", 2)[0], strings.Join(problems, "; "), c07case{strings.Join(seq, ","), nil, nil, nil, strings.Join(problems, "; ")})
			}
			rep.Class("ephemeral-port/reloads=" + strings.Join(seq, ","))
		}
	}
	// (4) the Casketfile's text stays the same while what it refers to changes (an imported file is edited, an environment
	// value changes): a reload that reports success serves the new meaning
	if next() {
		body := filepath.Join(dir, "site-body.conf")
		text := fmt.Sprintf("127.0.0.1:%d {\n\timport %s\n\theader / X-E {$C07_E}\n\tstatus 204 /ok\n}\n", p0, body)
		in := casket.CasketfileInput{Contents: []byte(text), Filepath: filepath.Join(dir, "Casketfile"), ServerTypeName: "http"}
		for _, seq := range [][]string{{"import"}, {"env"}, {"import", "env"}, {"none", "import"}, {"import", "none"}} {
			ver := 1
			write := func() { os.WriteFile(body, []byte(fmt.Sprintf("header / X-V v%d\n", ver)), 0o644) }
			write()
			os.Setenv("C07_E", "e1")
			reloading = false
			inst, err := casket.Start(in)
			if err != nil {
				rep.Broken("same text: start: %v", err)
			}
			var problems []string
			for r, what := range seq {
				switch what {
				case "import":
					ver++
					write()
				case "env":
					os.Setenv("C07_E", fmt.Sprintf("e%d", r+2))
				}
				ni, rerr := inst.Restart(in)
				if rerr != nil {
					problems = append(problems, fmt.Sprintf("reload #%d (%s changed) failed: %v", r+1, what, rerr))
					break
				}
				inst = ni
				c := &client{port: p0}
				c.step("dial")
				c.step("send")
				if c.conn != nil && c.err == "" {
					if resp, err := http.ReadResponse(bufio.NewReader(c.conn), nil); err == nil {
						got := fmt.Sprintf("%d %s %s", resp.StatusCode, resp.Header.Get("X-V"), resp.Header.Get("X-E"))
						want := fmt.Sprintf("204 v%d %s", ver, os.Getenv("C07_E"))
						if got != want {
							problems = append(problems, fmt.Sprintf("probe-after-reload: after reload #%d (%s changed, the Casketfile's own text did not) the site answered %q, want %q", r+1, what, got, want))
						}
						resp.Body.Close()
					} else {
						problems = append(problems, "probe-after-reload: "+err.Error())
					}
					c.conn.Close()
				} else {
					problems = append(problems, "probe-after-reload: "+c.err)
				}
			}
			rep.Eval(1)
			transitions += int64(len(seq))
			casket.Stop()
			if len(problems) > 0 {
				rep.Violation("C07/same-text/"+strings.SplitN(problems[0], ":", 2)[0], strings.Join(problems, "; "), c07case{strings.Join(seq, ","), nil, nil, nil, strings.Join(problems, "; ")})
			}
			rep.Class("same-text/changes=" + strings.Join(seq, ","))
		}
		os.Unsetenv("C07_E")
	}
	// (5) the address a site binds changes, its port does not: after the reload the new address answers with the new configuration
	// and the address that was given up refuses connections
	if next() {
		cfgB := func(v int, hosts string) string {
			out := ""
			for _, h := range strings.Fields(hosts) { // (one site per bound address)
				out += fmt.Sprintf("%s:%d {\n\tbind %s\n\theader / X-V v%d\n\tstatus 204 /ok\n}\n", h, p0, h, v)
			}
			return out
		}
		for _, seq := range [][]string{{"127.0.0.1", "127.0.0.2"}, {"127.0.0.1", "127.0.0.1 127.0.0.2"}, {"127.0.0.1 127.0.0.2", "127.0.0.2"}, {"127.0.0.2", "127.0.0.3", "127.0.0.2"}} {
			reloading = false
			inst, err := casket.Start(casket.CasketfileInput{Contents: []byte(cfgB(1, seq[0])), Filepath: filepath.Join(dir, "Casketfile"), ServerTypeName: "http"})
			if err != nil {
				rep.Broken("bind hosts: start: %v", err)
			}
			var problems []string
			for r, hosts := range seq[1:] {
				ni, rerr := inst.Restart(casket.CasketfileInput{Contents: []byte(cfgB(r+2, hosts)), Filepath: filepath.Join(dir, "Casketfile"), ServerTypeName: "http"})
				if rerr != nil {
					problems = append(problems, fmt.Sprintf("reload #%d failed: %v", r+1, rerr))
					break
				}
				inst = ni
				for _, h := range []string{"127.0.0.1", "127.0.0.2", "127.0.0.3"} {
					got := probeAt(h, p0)
					bound := strings.Contains(" "+hosts+" ", " "+h+" ")
					want := fmt.Sprintf("204 v%d", r+2)
					for w := 0; !bound && !strings.HasPrefix(got, "dial:") && w < 100; w++ { // the old instance closes its listener while it drains: allow it two seconds
						time.Sleep(20 * time.Millisecond)
						got = probeAt(h, p0)
					}
					if bound && got != want {
						problems = append(problems, fmt.Sprintf("probe-after-reload: %s:%d (bound by the new configuration) answered %q after reload #%d, want %q", h, p0, got, r+1, want))
					}
					if !bound && !strings.HasPrefix(got, "dial:") {
						problems = append(problems, fmt.Sprintf("address-given-up-still-answers: %s:%d is not bound by the new configuration and answered %q after reload #%d", h, p0, got, r+1))
					}
				}
			}
			rep.Eval(1)
			transitions += int64(len(seq))
			casket.Stop()
			if len(problems) > 0 {
				rep.Violation("C07/bind-hosts/"+strings.SplitN(problems[0], ":", 2)[0], strings.Join(problems, "; "), c07case{strings.Join(seq, " -> "), nil, nil, nil, strings.Join(problems, "; ")})
			}
			rep.Class("bind-hosts/" + strings.Join(seq, " -> "))
		}
	}
	// (6) a request whose handler is still running when the old instance is stopped, with a grace period of zero and with the
	// usual one: the reload succeeds, new connections get the new configuration, and the held request still gets its complete
	// answer from the old one
	if next() {
		cfgH := func(v int) string {
			return fmt.Sprintf("127.0.0.1:%d {\n\theader / X-V v%d\n\tstatus 204 /ok\n\tverif_hold\n}\n", p0, v)
		}
		for _, grace := range []time.Duration{0, 40 * time.Millisecond} {
			httpserver.GracefulTimeout = grace
			holdMu.Lock()
			holdRelease = make(chan struct{})
			holdMu.Unlock()
			reloading = false
			inst, err := casket.Start(casket.CasketfileInput{Contents: []byte(cfgH(1)), Filepath: filepath.Join(dir, "Casketfile"), ServerTypeName: "http"})
			if err != nil {
				rep.Broken("held request: start: %v", err)
			}
			var problems []string
			conn, err := net.DialTimeout("tcp", fmt.Sprintf("127.0.0.1:%d", p0), 3*time.Second)
			if err != nil {
				rep.Broken("held request: dial: %v", err)
			}
			conn.SetDeadline(time.Now().Add(30 * time.Second))
			conn.Write([]byte("GET /slow HTTP/1.1\r\nHost: 127.0.0.1\r\nConnection: close\r\n\r\n"))
			select {
			case <-holdEntered:
			case <-time.After(10 * time.Second):
				rep.Broken("held request: the handler was not entered")
			}
			ni, rerr := inst.Restart(casket.CasketfileInput{Contents: []byte(cfgH(2)), Filepath: filepath.Join(dir, "Casketfile"), ServerTypeName: "http"})
			if rerr != nil {
				problems = append(problems, fmt.Sprintf("reload/ok: Restart returned error=%v", rerr))
			} else {
				inst = ni
			}
			if got := probe(p0); rerr == nil && got != "204 v2" {
				problems = append(problems, fmt.Sprintf("probe-after-reload: a fresh connection after the reload answered %q, want \"204 v2\"", got))
			}
			holdMu.Lock()
			close(holdRelease)
			holdMu.Unlock()
			resp, err := http.ReadResponse(bufio.NewReader(conn), nil)
			if err != nil {
				problems = append(problems, "request-in-flight-dropped: the request that was being handled when the old instance was stopped got no answer: "+err.Error())
			} else {
				body, _ := io.ReadAll(resp.Body)
				resp.Body.Close()
				if resp.StatusCode != 200 || string(body) != "slow-done" || resp.Header.Get("X-V") != "v1" {
					problems = append(problems, fmt.Sprintf("request-in-flight-answered-wrongly: status %d X-V %q body %q, want 200 v1 slow-done", resp.StatusCode, resp.Header.Get("X-V"), body))
				}
			}
			conn.Close()
			rep.Eval(1)
			transitions += 3
			casket.Stop()
			if len(problems) > 0 {
				rep.Violation("C07/held-request/"+strings.SplitN(problems[0], ":", 2)[0], fmt.Sprintf("grace period %v: %s", grace, strings.Join(problems, "; ")), c07case{fmt.Sprintf("ok, grace=%v", grace), nil, nil, nil, strings.Join(problems, "; ")})
			}
			rep.Class(fmt.Sprintf("held-request/grace=%v", grace))
		}
		httpserver.GracefulTimeout = 40 * time.Millisecond
	}
	rep.AddInt("states", int64(len(states)))
	rep.AddInt("transitions", transitions)
	rep.Finish()
}
