// C17 — body-size limits are exact; shared listener limits are the strictest.
package main

import (
	"fmt"
	"github.com/tmpim/casket/caskethttp/httpserver"
	"io"
	"net"
	"net/http"
	"os"
	"path"
	"path/filepath"
	"sort"
	"strings"
	"time"

	"verif/internal/kit"
)

type limEntry struct {
	p string
	l int
}

var tableMenu = []limEntry{{"/", 8}, {"/a", 4}, {"/a/b", 16}, {"/c", 1}}
var reqPaths = []string{"/", "/a", "/a/", "/a/b/x", "/ab", "/A", "/c", "/x//a", "/a/../c"}

// refLimit: the limit configured for the longest matching path (the
// documented matcher: cleaned, case-insensitive string prefix), or -1.
func refLimit(table []limEntry, reqPath string) int {
	trailing := strings.HasSuffix(reqPath, "/")
	p := path.Clean(reqPath)
	if trailing && p != "/" {
		p += "/"
	}
	p = strings.ToLower(p)
	best, bestLen := -1, -1
	for _, e := range table {
		if e.p == "/" || strings.HasPrefix(p, strings.ToLower(e.p)) {
			if len(e.p) > bestLen {
				best, bestLen = e.l, len(e.p)
			}
		}
	}
	return best
}

func body(n int) string {
	b := make([]byte, n)
	for i := range b {
		b[i] = byte('A' + i%26)
	}
	return string(b)
}

func chunked(b string, size int) string {
	var s strings.Builder
	for len(b) > 0 {
		k := size
		if k > len(b) {
			k = len(b)
		}
		fmt.Fprintf(&s, "%x\r\n%s\r\n", k, b[:k])
		b = b[k:]
	}
	s.WriteString("0\r\n\r\n")
	return s.String()
}

// lateEOF never returns data together with io.EOF.
type lateEOF struct {
	r   io.ReadCloser
	eof bool
}

func (l *lateEOF) Read(p []byte) (int, error) {
	if l.eof {
		return 0, io.EOF
	}
	n, err := l.r.Read(p)
	if err == io.EOF && n > 0 {
		l.eof = true
		return n, nil
	}
	return n, err
}
func (l *lateEOF) Close() error { return l.r.Close() }

type limCase struct {
	Casketfile string `json:"casketfile"`
	Request    string `json:"request"`
	Want       string `json:"want"`
	Got        string `json:"got"`
}

func bodyLimits(rep *kit.Report, scratch string) {
	// in-process backend for the proxied variant
	sock := filepath.Join(scratch, "be.sock")
	ln, err := net.Listen("unix", sock)
	if err != nil {
		rep.Broken("unix listen: %v", err)
	}
	go http.Serve(ln, http.HandlerFunc(func(w http.ResponseWriter, r *http.Request) {
		b, err := io.ReadAll(r.Body)
		fmt.Fprintf(w, "BACKEND n=%d err=%v\n%s", len(b), err, b)
	}))
	defer ln.Close()
	// the same backend on a TCP socket: net/http hands a body of known length to TCPConn.ReadFrom, which reports
	// the reader's error wrapped in a *net.OpError (a unix socket does not take that path)
	tln, err := net.Listen("tcp", "127.0.0.1:0")
	if err != nil {
		rep.Broken("tcp listen: %v", err)
	}
	go http.Serve(tln, http.HandlerFunc(func(w http.ResponseWriter, r *http.Request) {
		b, err := io.ReadAll(r.Body)
		fmt.Fprintf(w, "BACKEND n=%d err=%v\n%s", len(b), err, b)
	}))
	defer tln.Close()
	var tables [][]limEntry
	kit.Subsets(len(tableMenu), 1, len(tableMenu), func(idx []int) {
		var t []limEntry
		for _, i := range idx {
			t = append(t, tableMenu[i])
		}
		tables = append(tables, t)
		// reversed declaration order must not matter
		if len(t) > 1 {
			r := append([]limEntry{}, t...)
			sort.Slice(r, func(i, j int) bool { return i > j })
			tables = append(tables, r)
		}
	})
	bufs := []int{1, 2, 3, 0, -1, 32768} // 0 -> L, -1 -> L+1
	for ti, table := range tables {
		for _, mode := range []string{"", "unix", "tcp", "tcp-two-backends-with-retries"} {
			proxied := mode != ""
			var cf strings.Builder
			cf.WriteString("a.test:8080 {\n\tlimits {\n")
			for _, e := range table {
				fmt.Fprintf(&cf, "\t\tbody %s %d\n", e.p, e.l)
			}
			cf.WriteString("\t}\n")
			if mode == "unix" {
				fmt.Fprintf(&cf, "\tproxy / unix:%s\n", sock)
			} else if mode == "tcp" {
				fmt.Fprintf(&cf, "\tproxy / %s\n", tln.Addr())
			} else if mode == "tcp-two-backends-with-retries" {
				// (with several backends and retries the proxy reads the whole body before the first attempt)
				fmt.Fprintf(&cf, "\tproxy / %s localhost:%d {\n\t\ttry_duration 1s\n\t}\n", tln.Addr(), tln.Addr().(*net.TCPAddr).Port)
			} else {
				cf.WriteString("\tverif_probe\n")
			}
			cf.WriteString("}\n")
			l, err := kit.Load(cf.String(), "/nonexistent/Casketfile")
			if err != nil {
				rep.Broken("load %q: %v", cf.String(), err)
			}
			srv := l.Server("")
			local := map[string]int64{}
			for _, rp := range reqPaths {
				L := refLimit(table, rp)
				lens := map[int]bool{0: true}
				for _, e := range table {
					for _, d := range []int{-1, 0, 1} {
						if e.l+d >= 0 {
							lens[e.l+d] = true
						}
					}
					lens[2*e.l] = true
				}
				for n := range lens {
					b := body(n)
					framings := []string{fmt.Sprintf("Content-Length: %d\r\n\r\n%s", n, b)}
					if n > 0 {
						framings = append(framings, "Transfer-Encoding: chunked\r\n\r\n"+chunked(b, 1), "Transfer-Encoding: chunked\r\n\r\n"+chunked(b, n+1), "Transfer-Encoding: chunked\r\n\r\n"+chunked(b, 3))
					}
					for fi, fr := range framings {
						for _, bs := range bufs {
							if proxied && bs != 1 {
								continue
							}
							buf := bs
							if bs == 0 {
								buf = max(L, 1)
							} else if bs == -1 {
								buf = max(L, 0) + 1
							}
							for eofMode := 0; eofMode < 2; eofMode++ {
								if proxied && eofMode == 1 {
									continue
								}
								raw := fmt.Sprintf("POST %s HTTP/1.1\r\nHost: a.test:8080\r\nX-Probe: readbody:%d\r\n%s", rp, buf, fr)
								req, err := kit.Req(raw)
								if err != nil {
									rep.Broken("bad request %q: %v", raw, err)
								}
								if eofMode == 1 {
									// the end of the body arrives in a read of its own (as when the
									// terminating chunk / FIN comes in a later segment)
									req.Body = &lateEOF{r: req.Body}
									raw += "   [end of body delivered by a separate read]"
								}
								rec, pv, _ := kit.ServeReq(srv, req)
								rep.Eval(1)
								got := ""
								if pv != nil {
									got = fmt.Sprintf("panic: %v", pv)
								} else if proxied {
									got = fmt.Sprintf("%d %s", rec.Status, rec.Body.String())
								} else {
									got = rec.Body.String()
								}
								want := ""
								over := L >= 0 && n > L
								switch {
								case proxied && over:
									want = "413 "
									if !strings.HasPrefix(got, "413 ") {
										want = "413 <error page>"
									} else {
										want = got
									}
								case proxied:
									want = fmt.Sprintf("200 BACKEND n=%d err=<nil>\n%s", n, b)
								case over:
									want = fmt.Sprintf("READ n=%d err=http: request body too large again=0,http: request body too large\n%s", L, b[:L])
								default:
									want = fmt.Sprintf("READ n=%d err=<nil> again=0,EOF\n%s", n, b)
								}
								if got != want {
									kind := "under-limit-body-damaged"
									if over {
										kind = "over-limit-not-cut-at-limit"
									}
									if proxied {
										kind += "/proxied-" + mode
									}
									rep.Violation("C17/body/"+kind, fmt.Sprintf("path %s body %d bytes, limit %d, read buffer %d", rp, n, L, buf),
										limCase{cf.String(), raw, want, got})
								}
								cl := "within"
								if over {
									cl = "over"
								}
								if L < 0 {
									cl = "no-limit-applies"
								}
								local[fmt.Sprintf("body/%s/proxied=%v/framing%d/late-eof=%d", cl, mode, fi, eofMode)]++
							}
						}
					}
				}
			}
			rep.ClassN(local)
			l.Close()
			if ti == 5 && !proxied {
				rep.Sample(map[string]interface{}{"casketfile": cf.String(), "request": "POST /a/b/x, body lengths around every limit, Content-Length and 3 chunkings, 6 read-buffer sizes"})
			}
		}
	}
}

// ---- listener-wide minima ----

var kinds = []string{"read", "header", "write", "idle"}
var tvals = []string{"", "none", "5s", "10s"}

type lwCase struct {
	Casketfile string `json:"casketfile"`
	Field      string `json:"field"`
	Want       string `json:"want"`
	Got        string `json:"got"`
}

func refTimeout(vals []string, def time.Duration) time.Duration {
	anySet, anyFinite := false, false
	var best time.Duration
	for _, v := range vals {
		if v == "" {
			continue
		}
		anySet = true
		if v == "none" {
			continue
		}
		d, _ := time.ParseDuration(v)
		if !anyFinite || d < best {
			best, anyFinite = d, true
		}
	}
	if !anySet {
		return def
	}
	if !anyFinite {
		return 0 // every site that sets it says none
	}
	return best
}

func listenerWide(rep *kit.Report) {
	hosts := []string{"a.test", "b.test", "c.test"}
	check := func(cfg [][]string, hdr []string) {
		// cfg[site][kind] value; hdr[site] header size ("" unset)
		var cf strings.Builder
		for s := range cfg {
			fmt.Fprintf(&cf, "%s:8080 {\n", hosts[s])
			lines := ""
			for k, v := range cfg[s] {
				if v != "" {
					lines += fmt.Sprintf("\t\t%s %s\n", kinds[k], v)
				}
			}
			if lines != "" {
				fmt.Fprintf(&cf, "\ttimeouts {\n%s\t}\n", lines)
			}
			if hdr[s] != "" {
				fmt.Fprintf(&cf, "\tlimits {\n\t\theader %s\n\t}\n", hdr[s])
			}
			cf.WriteString("}\n")
		}
		l, err := kit.Load(cf.String(), "/nonexistent/Casketfile")
		if err != nil {
			rep.Broken("load %q: %v", cf.String(), err)
		}
		defer l.Close()
		srv := l.Server("")
		rep.Eval(1)
		got := []time.Duration{srv.Server.ReadTimeout, srv.Server.ReadHeaderTimeout, srv.Server.WriteTimeout, srv.Server.IdleTimeout}
		defs := []time.Duration{0, 0, 0, 5 * time.Minute}
		nonTrivial := false
		for k := range kinds {
			var vals []string
			for s := range cfg {
				vals = append(vals, cfg[s][k])
			}
			want := refTimeout(vals, defs[k])
			if got[k] != want {
				kind := "not-strictest"
				hasNone := false
				for _, v := range vals {
					hasNone = hasNone || v == "none"
				}
				if hasNone && got[k] == 0 && want != 0 {
					kind = "none-beats-finite"
				}
				rep.Violation("C17/listener/"+kinds[k]+"-timeout/"+kind, fmt.Sprintf("%s timeout: sites configure %v, listener got %v, strictest is %v", kinds[k], vals, got[k], want),
					lwCase{cf.String(), kinds[k], want.String(), got[k].String()})
			}
			set := 0
			for _, v := range vals {
				if v != "" {
					set++
				}
			}
			if set >= 2 {
				nonTrivial = true
			}
		}
		wantH := 0
		for _, h := range hdr {
			n := map[string]int{"": 0, "4KB": 4096, "8KB": 8192}[h]
			if n > 0 && (wantH == 0 || n < wantH) {
				wantH = n
			}
		}
		if srv.Server.MaxHeaderBytes != wantH {
			rep.Violation("C17/listener/header-size", fmt.Sprintf("sites configure %v, listener got %d, strictest is %d", hdr, srv.Server.MaxHeaderBytes, wantH),
				lwCase{cf.String(), "MaxHeaderBytes", fmt.Sprint(wantH), fmt.Sprint(srv.Server.MaxHeaderBytes)})
		}
		if nonTrivial {
			rep.Class(fmt.Sprintf("listener/sites=%d/competing-values", len(cfg)))
		} else {
			rep.Class(fmt.Sprintf("listener/sites=%d/single-or-default", len(cfg)))
		}
	}
	none := []string{"", "", ""}
	// one kind at a time, every value vector over 1..3 sites
	for k := range kinds {
		for n := 1; n <= 3; n++ {
			total := 1
			for i := 0; i < n; i++ {
				total *= len(tvals)
			}
			for code := 0; code < total; code++ {
				cfg := make([][]string, n)
				c := code
				for s := 0; s < n; s++ {
					cfg[s] = []string{"", "", "", ""}
					cfg[s][k] = tvals[c%len(tvals)]
					c /= len(tvals)
				}
				check(cfg, none[:n])
			}
		}
	}
	// two kinds at once (values of one kind must not leak into another), 2 and 3 sites
	for k1 := 0; k1 < len(kinds); k1++ {
		for k2 := k1 + 1; k2 < len(kinds); k2++ {
			for n := 2; n <= 3; n++ {
				per := len(tvals) * len(tvals)
				total := 1
				for i := 0; i < n; i++ {
					total *= per
				}
				if n == 3 && !rep.Thorough() {
					continue
				}
				for code := 0; code < total; code++ {
					cfg := make([][]string, n)
					c := code
					for s := 0; s < n; s++ {
						cfg[s] = []string{"", "", "", ""}
						cfg[s][k1] = tvals[c%len(tvals)]
						cfg[s][k2] = tvals[(c/len(tvals))%len(tvals)]
						c /= per
					}
					check(cfg, none[:n])
				}
			}
		}
	}
	// all four kinds at once with values from {unset, 5s, 10s} on two sites
	three := []string{"", "5s", "10s"}
	for code := 0; code < 6561; code++ {
		cfg := [][]string{{"", "", "", ""}, {"", "", "", ""}}
		c := code
		for s := 0; s < 2; s++ {
			for k := 0; k < 4; k++ {
				cfg[s][k] = three[c%3]
				c /= 3
			}
		}
		check(cfg, none[:2])
	}
	// header sizes
	hvals := []string{"", "4KB", "8KB"}
	for n := 1; n <= 3; n++ {
		total := 1
		for i := 0; i < n; i++ {
			total *= 3
		}
		for code := 0; code < total; code++ {
			hdr := make([]string, n)
			cfg := make([][]string, n)
			c := code
			for s := 0; s < n; s++ {
				hdr[s] = hvals[c%3]
				c /= 3
				cfg[s] = []string{"", "", "", ""}
			}
			check(cfg, hdr)
		}
	}
	// two timeouts directives on one site, in the one-value form and in the block form, in both orders: each line takes effect
	// (a later value for a kind replaces an earlier one), or the site is refused - a line is never dropped silently
	type tdir struct {
		text string
		set  map[string]string
	}
	forms := []tdir{
		{"timeouts 10s", map[string]string{"read": "10s", "header": "10s", "write": "10s", "idle": "10s"}},
		{"timeouts 20s", map[string]string{"read": "20s", "header": "20s", "write": "20s", "idle": "20s"}},
		{"timeouts {\n\t\tidle 2m\n\t}", map[string]string{"idle": "2m"}},
		{"timeouts {\n\t\tread 7s\n\t\twrite none\n\t}", map[string]string{"read": "7s", "write": "none"}},
	}
	for _, d1 := range forms {
		for _, d2 := range forms {
			cf := "a.test:8080 {\n\t" + d1.text + "\n\t" + d2.text + "\n}\n"
			l, err := kit.Load(cf, "/nonexistent/Casketfile")
			rep.Eval(1)
			if err != nil {
				rep.Class("two-timeouts-directives/refused")
				continue
			}
			srv := l.Server("")
			got := []time.Duration{srv.Server.ReadTimeout, srv.Server.ReadHeaderTimeout, srv.Server.WriteTimeout, srv.Server.IdleTimeout}
			defs := []time.Duration{0, 0, 0, 5 * time.Minute}
			for k, kind := range kinds {
				val := d1.set[kind]
				if v, ok := d2.set[kind]; ok {
					val = v
				}
				if want := refTimeout([]string{val}, defs[k]); got[k] != want {
					rep.Violation("C17/listener/"+kind+"-timeout/line-of-a-second-timeouts-directive-dropped", fmt.Sprintf("%s timeout after `%s` then `%s`: listener got %v, want %v", kind, d1.text, d2.text, got[k], want), lwCase{cf, kind, want.String(), got[k].String()})
				}
			}
			l.Close()
			rep.Class("two-timeouts-directives/applied")
		}
	}
	rep.Sample(map[string]interface{}{"listener_group": "a.test:8080 { timeouts { read 10s } }  b.test:8080 { timeouts { read none; header 5s } }", "checked": "effective http.Server fields vs strictest configured value"})
}

func main() {
	rep := kit.NewReport("C17", "exploration",
		"body limits: every non-empty subset (and its reversal) of 4 nested path scopes x 9 request paths x body lengths {0, L-1, L, L+1, 2L for every L} x {Content-Length, chunked by 1, by 3, by n+1} x 6 read-buffer sizes, directly and through proxy to an in-process backend; a site whose address carries a path next to one that does not; 8 limits at and beyond what an int64 holds (refused, or small bodies arrive whole); listener-wide: every assignment of {unset, none, 5s, 10s} to 1..3 co-hosted sites per timeout kind, pairs of kinds (2 sites; 3 in thorough), all four kinds over {unset,5s,10s} on 2 sites, header sizes over {unset,4KB,8KB}^n; distinct_nontrivial = outcome classes")
	kit.Init()
	kit.RegisterProbe()
	kit.Log.Off.Store(true)
	scratch := kit.TempDir("c17")
	defer os.RemoveAll(scratch)
	bodyLimits(rep, scratch)
	listenerWide(rep)
	os.RemoveAll(scratch)
	// two limits directives on one site: both apply, or the site is refused - a limit is never dropped silently
	for _, cf := range []string{
		"a.test:8080 {\n\tlimits {\n\t\tbody /a 10\n\t}\n\tlimits {\n\t\tbody /b 5\n\t}\n\tverif_probe\n}\n",
		"a.test:8080 {\n\tlimits 10\n\tlimits {\n\t\tbody /b 5\n\t}\n\tverif_probe\n}\n",
	} {
		l, err := kit.Load(cf, "/nonexistent/Casketfile")
		rep.Eval(1)
		if err != nil {
			rep.Class("two-limits-directives/refused")
			continue
		}
		b := body(6)
		raw := fmt.Sprintf("POST /b/x HTTP/1.1\r\nHost: a.test:8080\r\nX-Probe: readbody:1\r\nContent-Length: %d\r\n\r\n%s", len(b), b)
		req, _ := kit.Req(raw)
		rec, pv, _ := kit.ServeReq(l.Server(""), req)
		if pv != nil || !strings.Contains(rec.Body.String(), "READ n=5 err=http: request body too large") {
			rep.Violation("C17/body/limit-of-a-second-limits-directive-dropped", "a 6-byte body under /b was not cut at the 5 bytes that the site's second limits directive configures", limCase{cf, raw, "READ n=5 err=http: request body too large ...", rec.Body.String()})
		}
		l.Close()
		rep.Class("two-limits-directives/both-applied")
	}
	// a site whose address carries a path: its directives see the request path with that prefix trimmed, the limit scopes included
	{
		cf := "a.test:8080/app {\n\tlimits {\n\t\tbody / 64\n\t\tbody /upload 8\n\t}\n\tverif_probe\n}\na.test:8080 {\n\tlimits {\n\t\tbody / 4\n\t}\n\tverif_probe\n}\n"
		l, err := kit.Load(cf, "/nonexistent/Casketfile")
		if err != nil {
			rep.Broken("path-prefixed site: %v", err)
		}
		for _, tc := range []struct {
			path string
			lim  int
		}{{"/app/upload/x", 8}, {"/app/upload", 8}, {"/app/other", 64}, {"/app/uploads", 8}, {"/upload/x", 4}, {"/APP/upload/x", 4}} {
			for _, n := range []int{tc.lim - 1, tc.lim, tc.lim + 1, 2*tc.lim + 3} {
				for _, chunked := range []bool{false, true} {
					b := body(n)
					raw := fmt.Sprintf("POST %s HTTP/1.1\r\nHost: a.test:8080\r\nX-Probe: readbody:3\r\nContent-Length: %d\r\n\r\n%s", tc.path, len(b), b)
					if chunked {
						raw = fmt.Sprintf("POST %s HTTP/1.1\r\nHost: a.test:8080\r\nX-Probe: readbody:3\r\nTransfer-Encoding: chunked\r\n\r\n%x\r\n%s\r\n0\r\n\r\n", tc.path, len(b), b)
					}
					req, _ := kit.Req(raw)
					rec, pv, _ := kit.ServeReq(l.Server(""), req)
					rep.Eval(1)
					want := fmt.Sprintf("READ n=%d err=<nil>", n)
					if n > tc.lim {
						want = fmt.Sprintf("READ n=%d err=http: request body too large", tc.lim)
					}
					if pv != nil || !strings.Contains(rec.Body.String(), want) {
						got := rec.Body.String()
						if len(got) > 100 {
							got = got[:100]
						}
						kind := "over-limit-not-cut-at-limit"
						if n <= tc.lim {
							kind = "within-limit-not-passed-whole"
						}
						rep.Violation("C17/body/"+kind+"/site-with-path-prefix", fmt.Sprintf("sites a.test/app (limits / 64, /upload 8) and a.test (limit 4): a %d-byte body for %s: the limit is %d", n, tc.path, tc.lim), limCase{cf, raw, want + " ...", got})
					}
				}
			}
		}
		l.Close()
		rep.Class("site-with-path-prefix")
	}
	// limits far above any body: the largest values an int64 holds, and values whose unit multiplication does not fit one. The
	// site is refused, or a 2000-byte body arrives whole (every one of these limits is above 2000 bytes).
	for _, lim := range []string{"9223372036854775807", "9223372036854775806", "9007199254740992KB", "18014398509481985KB", "9007199254740993KB", "8589934592GB", "17179869185GB", "4611686018427387904"} {
		cf := "a.test:8080 {\n\tlimits {\n\t\tbody / " + lim + "\n\t}\n\tverif_probe\n}\n"
		l, err := kit.Load(cf, "/nonexistent/Casketfile")
		rep.Eval(1)
		if err != nil {
			rep.Class("extreme-limit/refused")
			continue
		}
		for _, n := range []int{5, 2000} {
			for _, buf := range []int{1, 512, 32768} {
				for _, chunked := range []bool{false, true} {
					b := body(n)
					raw := fmt.Sprintf("POST /x HTTP/1.1\r\nHost: a.test:8080\r\nX-Probe: readbody:%d\r\nContent-Length: %d\r\n\r\n%s", buf, len(b), b)
					if chunked {
						raw = fmt.Sprintf("POST /x HTTP/1.1\r\nHost: a.test:8080\r\nX-Probe: readbody:%d\r\nTransfer-Encoding: chunked\r\n\r\n%x\r\n%s\r\n0\r\n\r\n", buf, len(b), b)
					}
					req, _ := kit.Req(raw)
					rec, pv, _ := kit.ServeReq(l.Server(""), req)
					rep.Eval(1)
					want := fmt.Sprintf("READ n=%d err=<nil>", n)
					if pv != nil || !strings.Contains(rec.Body.String(), want) {
						got := rec.Body.String()
						if len(got) > 120 {
							got = got[:120]
						}
						rep.Violation("C17/body/within-limit-not-passed-whole/extreme-limit", fmt.Sprintf("limit %s: a %d-byte body read with a %d-byte buffer did not arrive whole (status %d, panic %v)", lim, n, buf, rec.Status, pv), limCase{cf, raw[:min(len(raw), 200)], want + " ...", got})
					}
				}
			}
		}
		l.Close()
		rep.Class("extreme-limit/accepted")
	}
	// case-sensitive path mode (CASE_SENSITIVE_PATH=1): scopes that differ only in letter case are different scopes
	httpserver.CaseSensitivePath = true
	{
		cf := "a.test:8080 {\n\tlimits {\n\t\tbody /API 16\n\t\tbody /api 4\n\t}\n\tverif_probe\n}\n"
		l, err := kit.Load(cf, "/nonexistent/Casketfile")
		if err != nil {
			rep.Violation("C17/body/case-sensitive-scopes-refused", "two body scopes that differ in letter case were refused in case-sensitive mode: "+err.Error(), limCase{cf, "", "", err.Error()})
		} else {
			for _, tc := range []struct {
				path string
				lim  int
			}{{"/api/x", 4}, {"/API/x", 16}} {
				b := body(20)
				raw := fmt.Sprintf("POST %s HTTP/1.1\r\nHost: a.test:8080\r\nX-Probe: readbody:3\r\nContent-Length: %d\r\n\r\n%s", tc.path, len(b), b)
				req, _ := kit.Req(raw)
				rec, pv, _ := kit.ServeReq(l.Server(""), req)
				rep.Eval(1)
				want := fmt.Sprintf("READ n=%d err=http: request body too large", tc.lim)
				if pv != nil || !strings.Contains(rec.Body.String(), want) {
					rep.Violation("C17/body/over-limit-not-cut-at-limit/case-sensitive-paths", fmt.Sprintf("case-sensitive mode: a 20-byte body for %s was not cut at %d", tc.path, tc.lim), limCase{cf, raw, want + " ...", rec.Body.String()})
				}
			}
			l.Close()
		}
		rep.Class("case-sensitive-paths")
	}
	httpserver.CaseSensitivePath = false
	rep.Finish()
}
