// Package verifrt is the runtime of the E2 engine: a cooperative scheduler
// with a virtual clock, shims for the concurrency primitives that the
// instrumenter rewrites, and a preemption-bounded depth-first explorer.
//
// It is overlaid into the casket module as github.com/tmpim/casket/verifrt so
// that instrumented casket packages and the harness share one instance.
// With no exploration active every shim is a pass-through to the real
// primitive (used by the free-running -race pass).
package verifrt

import (
	"fmt"
	"sync"
	"time"
)

type thread struct {
	id       int
	name     string
	wake     chan struct{}
	done     bool
	canRun   func() bool // nil = runnable
	sleeping bool
	deadline time.Duration
	waitDesc string
	starting bool    // running its prologue up to the first scheduling point
	parent   *thread // spawner, resumed when the prologue ends
}

// PointRec is one decision point of an execution.
type PointRec struct {
	N          int    // number of alternatives
	Choice     int    // alternative taken
	Preemptive bool   // true if a non-zero choice preempts a thread that could continue
	Kind       string // "sched" or "data:<label>"
	Enabled    []int  // thread ids for sched points
}

type abortSentinel struct{}

// Sched is the state of one execution.
type Sched struct {
	threads  []*thread
	cur      *thread
	clock    time.Duration
	prefix   []int
	pos      int
	Trace    []PointRec
	aborted  bool
	Failure  string // "", or description of deadlock / livelock / invariant / panic
	FailKind string
	steps    int
	maxSteps int
	inv      func() string
	finished chan struct{}
	finOnce  sync.Once
	live     int
	Log      []string // optional event log kept by harness via Logf
	visit    func(*Sched)
}

var (
	// S is the active execution, nil when running free.
	S *Sched
	// base is the virtual epoch.
	base = time.Date(2030, 1, 1, 0, 0, 0, 0, time.UTC)
)

// Active reports whether an exploration execution is running.
func Active() bool { return S != nil }

// Logf appends to the execution's event log (harness use).
func Logf(format string, a ...interface{}) {
	if S != nil {
		S.Log = append(S.Log, fmt.Sprintf(format, a...))
	}
}

// Clock returns the virtual time elapsed in this execution.
func Clock() time.Duration {
	if S == nil {
		return 0
	}
	return S.clock
}

// CurID returns the id of the running thread (harness use).
func CurID() int {
	if S == nil || S.cur == nil {
		return -1
	}
	return S.cur.id
}

func (s *Sched) enabled(t *thread) bool {
	if t.done {
		return false
	}
	if t.sleeping {
		// a sleeper may run when no other sleeper has an earlier deadline
		for _, o := range s.threads {
			if o != t && !o.done && o.sleeping && o.deadline < t.deadline {
				return false
			}
		}
		return true
	}
	if t.canRun != nil {
		return t.canRun()
	}
	return true
}

func (s *Sched) abort(kind, msg string) {
	if !s.aborted {
		s.aborted = true
		if s.Failure == "" {
			s.Failure = msg
			s.FailKind = kind
		}
	}
	// wake everybody so they unwind
	for _, t := range s.threads {
		if !t.done && t != s.cur {
			select {
			case t.wake <- struct{}{}:
			default:
			}
		}
	}
}

// choose consumes the next decision.
func (s *Sched) choose(n int, preemptive bool, kind string, enabled []int) int {
	c := 0
	if s.pos < len(s.prefix) {
		c = s.prefix[s.pos]
		if c >= n {
			panic(fmt.Sprintf("verifrt: replay divergence at point %d: choice %d of %d (%s)", s.pos, c, n, kind))
		}
	}
	s.pos++
	s.Trace = append(s.Trace, PointRec{N: n, Choice: c, Preemptive: preemptive, Kind: kind, Enabled: enabled})
	return c
}

// point is a scheduling point of the running thread. yield means the thread
// gives up the processor voluntarily (switching away is not a preemption).
func (s *Sched) point(yield bool) {
	cur := s.cur
	if s.aborted {
		panic(abortSentinel{})
	}
	if cur.starting {
		// a new thread runs eagerly up to its first scheduling point (so that a
		// timer's deadline is computed at spawn time), then control returns to
		// the spawner without a decision; the thread continues from here when
		// the scheduler first chooses it.
		cur.starting = false
		s.cur = cur.parent
		cur.parent.wake <- struct{}{}
		<-cur.wake
		if s.aborted {
			panic(abortSentinel{})
		}
		return
	}
	s.steps++
	if s.steps > s.maxSteps {
		s.abort("livelock", fmt.Sprintf("horizon of %d steps exceeded", s.maxSteps))
		panic(abortSentinel{})
	}
	if s.inv != nil {
		if msg := s.inv(); msg != "" {
			s.abort("invariant", msg)
			panic(abortSentinel{})
		}
	}
	if s.visit != nil {
		s.visit(s)
	}
	var en []*thread
	curEnabled := !cur.done && s.enabled(cur)
	if curEnabled {
		en = append(en, cur)
	}
	for _, t := range s.threads {
		if t != cur && s.enabled(t) {
			en = append(en, t)
		}
	}
	if len(en) == 0 {
		alive := 0
		desc := ""
		for _, t := range s.threads {
			if !t.done {
				alive++
				desc += fmt.Sprintf(" [%s waits on %s]", t.name, t.waitDesc)
			}
		}
		if alive == 0 {
			s.finish()
			return
		}
		s.abort("deadlock", "no enabled thread:"+desc)
		if cur.done {
			return
		}
		panic(abortSentinel{})
	}
	ids := make([]int, len(en))
	for i, t := range en {
		ids[i] = t.id
	}
	idx := 0
	if len(en) > 1 {
		idx = s.choose(len(en), curEnabled && !yield, "sched", ids)
	}
	next := en[idx]
	if next.sleeping {
		if next.deadline > s.clock {
			s.clock = next.deadline
		}
		next.sleeping = false
	}
	next.canRun = nil
	if next == cur {
		return
	}
	s.cur = next
	next.wake <- struct{}{}
	if cur.done {
		return
	}
	<-cur.wake
	if s.aborted {
		panic(abortSentinel{})
	}
}

// Point is an explicit scheduling point (harness use: fake transports etc.).
func Point() {
	if S != nil {
		S.point(false)
	}
}

// Yield is a voluntary scheduling point.
func Yield() {
	if S != nil {
		S.point(true)
	}
}

// Block suspends the running thread until cond() holds (evaluated at
// scheduling points of other threads). desc is used in deadlock reports.
func Block(desc string, cond func() bool) {
	if S == nil {
		panic("verifrt.Block outside exploration")
	}
	if cond() {
		S.point(false)
		if cond() {
			return
		}
	}
	for !cond() {
		S.cur.canRun = cond
		S.cur.waitDesc = desc
		S.point(true)
	}
}

// Choose is a data nondeterminism point with n alternatives (all explored).
func Choose(n int, label string) int {
	if S == nil {
		return 0
	}
	if n <= 1 {
		return 0
	}
	return S.choose(n, false, "data:"+label, nil)
}

// Go starts f as a new thread.
func Go(f func()) {
	s := S
	if s == nil {
		go f()
		return
	}
	s.startEager(s.spawn(f, ""))
	s.point(false)
}

// GoNamed is Go with a name used in reports.
func GoNamed(name string, f func()) {
	s := S
	if s == nil {
		go f()
		return
	}
	s.startEager(s.spawn(f, name))
	s.point(false)
}

// startEager runs the new thread t up to its first scheduling point.
func (s *Sched) startEager(t *thread) {
	parent := s.cur
	t.starting = true
	t.parent = parent
	s.cur = t
	t.wake <- struct{}{}
	<-parent.wake
	if s.aborted {
		panic(abortSentinel{})
	}
}

func (s *Sched) spawn(f func(), name string) *thread {
	t := &thread{id: len(s.threads), wake: make(chan struct{}, 1)}
	if name == "" {
		name = fmt.Sprintf("t%d", t.id)
	}
	t.name = name
	s.threads = append(s.threads, t)
	go func() {
		<-t.wake
		if s.aborted {
			t.done = true
			s.finishIfAllDone()
			return
		}
		defer func() {
			r := recover()
			if r != nil {
				if _, ok := r.(abortSentinel); !ok {
					s.abort("panic", fmt.Sprintf("thread %s panicked: %v", t.name, r))
				}
			}
			t.done = true
			if s.aborted {
				// hand over to whoever is left so they can unwind
				s.finishIfAllDone()
				return
			}
			s.exitPoint(t)
		}()
		f()
	}()
	return t
}

// exitPoint runs when thread t has finished: pick the next thread.
func (s *Sched) exitPoint(t *thread) {
	defer func() {
		if r := recover(); r != nil {
			if _, ok := r.(abortSentinel); !ok {
				panic(r)
			}
			// aborted while exiting: make sure the run ends
			s.finishIfAllDone()
		}
	}()
	s.point(true)
	if s.aborted {
		s.finishIfAllDone()
	}
}

func (s *Sched) finish() { s.finOnce.Do(func() { close(s.finished) }) }

func (s *Sched) finishIfAllDone() {
	for _, o := range s.threads {
		if !o.done {
			return
		}
	}
	s.finish()
}

// Result of one execution.
type Result struct {
	Trace    []PointRec
	Failure  string
	FailKind string
	Steps    int
	Clock    time.Duration
	Log      []string
}

// Options of an exploration.
type Options struct {
	MaxSteps  int
	Invariant func() string // evaluated at every scheduling point; non-empty = violation
	Visit     func()        // called at every scheduling point (state counting)
}

// Run executes body once under the scheduler following prefix, taking choice
// 0 afterwards. body runs as thread 0; the execution ends when every thread
// has finished.
func Run(prefix []int, opt Options, body func()) Result {
	if S != nil {
		panic("verifrt: nested Run")
	}
	s := &Sched{prefix: prefix, maxSteps: opt.MaxSteps, inv: opt.Invariant, finished: make(chan struct{})}
	if opt.Visit != nil {
		s.visit = func(*Sched) { opt.Visit() }
	}
	if s.maxSteps == 0 {
		s.maxSteps = 5000
	}
	S = s
	t0 := s.spawn(body, "main")
	s.cur = t0
	t0.wake <- struct{}{}
	<-s.finished
	// let aborted threads unwind
	if s.aborted {
		deadline := time.Now().Add(2 * time.Second)
		for {
			all := true
			for _, t := range s.threads {
				if !t.done {
					all = false
					select {
					case t.wake <- struct{}{}:
					default:
					}
				}
			}
			if all || time.Now().After(deadline) {
				break
			}
			time.Sleep(50 * time.Microsecond)
		}
	}
	S = nil
	return Result{Trace: s.Trace, Failure: s.Failure, FailKind: s.FailKind, Steps: s.steps, Clock: s.clock, Log: s.Log}
}

// Stats of an exploration.
type Stats struct {
	Executions  int64
	Points      int64
	MaxDepth    int
	Bound       int
	Capped      bool
	Failures    int64
	FirstFail   *Result
	FirstPrefix []int
}

// Explore runs body under every schedule / data choice with at most bound
// preemptions (depth-first, iterative). check is called after each
// execution and returns a failure description or "". stop is polled between
// executions. The first failing execution is replayed to confirm determinism.
func Explore(bound int, opt Options, body func(), check func(Result) string, stop func() bool) Stats {
	st := Stats{Bound: bound}
	stack := [][]int{{}}
	for len(stack) > 0 {
		if stop != nil && stop() {
			st.Capped = true
			break
		}
		prefix := stack[len(stack)-1]
		stack = stack[:len(stack)-1]
		res := Run(prefix, opt, body)
		st.Executions++
		st.Points += int64(len(res.Trace))
		if len(res.Trace) > st.MaxDepth {
			st.MaxDepth = len(res.Trace)
		}
		fail := res.Failure
		if fail == "" && check != nil {
			fail = check(res)
			if fail != "" {
				res.Failure = fail
				res.FailKind = "check"
			}
		}
		if fail != "" {
			st.Failures++
			if st.FirstFail == nil {
				full := make([]int, len(res.Trace))
				for i, p := range res.Trace {
					full[i] = p.Choice
				}
				// determinism: replay the same schedule, must fail identically
				res2 := Run(full, opt, body)
				f2 := res2.Failure
				if f2 == "" && check != nil {
					f2 = check(res2)
				}
				if f2 != fail {
					panic(fmt.Sprintf("verifrt: nondeterministic replay: first %q then %q", fail, f2))
				}
				r := res
				st.FirstFail = &r
				st.FirstPrefix = full
			}
		}
		// expand alternatives after the prefix
		pre := 0
		for i, p := range res.Trace {
			if i >= len(prefix) {
				for alt := p.N - 1; alt >= 1; alt-- {
					cost := pre
					if p.Preemptive {
						cost++
					}
					if cost > bound {
						continue
					}
					np := make([]int, i+1)
					for j := 0; j < i; j++ {
						np[j] = res.Trace[j].Choice
					}
					np[i] = alt
					stack = append(stack, np)
				}
			}
			if p.Preemptive && p.Choice != 0 {
				pre++
			}
		}
	}
	return st
}
