// C05 — load balancing finds an available backend whenever one exists;
// retries reach a healthy backend with the complete body, else 502 after
// try_duration.
//
// Runs against the source-instrumented proxy package (E2): math/rand draws
// are enumerated choices, time is virtual, the timer goroutines spawned by
// the retry loop are threads of the cooperative scheduler.
package main

import (
	"bytes"
	"errors"
	"fmt"
	"hash/fnv"
	"io"
	"net/http"
	"os"
	"reflect"
	"runtime"
	"sort"
	"strings"
	"sync/atomic"
	"time"

	"github.com/tmpim/casket/casketfile"
	"github.com/tmpim/casket/caskethttp/httpserver"
	"github.com/tmpim/casket/caskethttp/proxy"
	"github.com/tmpim/casket/verifrt"
	"verif/internal/kit"
)

func hostsOf(u proxy.Upstream) proxy.HostPool {
	v := reflect.ValueOf(u).Elem().FieldByName("Hosts")
	return v.Interface().(proxy.HostPool)
}

func upstreams(text string) ([]proxy.Upstream, error) {
	return proxy.NewStaticUpstreams(casketfile.NewDispenser("Casketfile", strings.NewReader(text)), "")
}

func fnv32a(s string) uint32 {
	h := fnv.New32a()
	h.Write([]byte(s))
	return h.Sum32()
}

// host states
const (
	stUp     = iota
	stPartly // one failure below max_fails and one connection below max_conns: still available
	stUnhealthy
	stFailed
	stFull
	nStates
)

var stName = []string{"up", "partly", "unhealthy", "failed", "full"}

func setState(h *proxy.UpstreamHost, st int) {
	h.Conns, h.Fails, h.Unhealthy = 0, 0, 0
	switch st {
	case stPartly:
		h.Conns, h.Fails = 1, 1
	case stUnhealthy:
		h.Unhealthy = 1
	case stFailed:
		h.Fails = 2
	case stFull:
		h.Conns = 2
	}
}

func availModel(st int) bool { return st == stUp || st == stPartly }

type polCase struct {
	Policy string   `json:"policy"`
	States []string `json:"backend_states"`
	Key    string   `json:"key"`
	Got    string   `json:"got"`
	Note   string   `json:"note,omitempty"`
}

func policies(rep *kit.Report) {
	maxN := 5
	if rep.Thorough() {
		maxN = 6
	}
	// keys covering every residue of fnv32a(key) mod n for all n <= 6
	var keys []string
	cover := map[[2]int]bool{}
	for k := 1; len(keys) < 24; k++ {
		key := fmt.Sprintf("10.0.%d.%d", k/7, k)
		keys = append(keys, key)
		for n := 1; n <= 6; n++ {
			cover[[2]int{n, int(fnv32a(key) % uint32(n))}] = true
		}
	}
	for n := 1; n <= 6; n++ {
		for res := 0; res < n; res++ {
			if !cover[[2]int{n, res}] {
				rep.Broken("key set does not cover residue %d mod %d", res, n)
			}
		}
	}
	rep.Set("hash_residue_coverage", "all residues of fnv32a(key) mod n, n=1..6, verified at run time")
	pols := []string{"random", "least_conn", "round_robin", "ip_hash", "uri_hash", "header X-Key", "first", "header", "header x-key"} // (header without a name; and the name written in lower case: field names are case-insensitive)
	item := 0
	for n := 1; n <= maxN; n++ {
		var names []string
		for i := 0; i < n; i++ {
			names = append(names, fmt.Sprintf("http://b%d.test", i))
		}
		total := 1
		for i := 0; i < n; i++ {
			total *= nStates
		}
		for _, pol := range pols {
			item++
			if !rep.Mine(item) {
				continue
			}
			if rep.Expired() {
				rep.Capped("deadline reached in policy enumeration")
				return
			}
			text := fmt.Sprintf("proxy / %s {\n policy %s\n max_conns 2\n max_fails 2\n fail_timeout 10s\n}", strings.Join(names, " "), pol)
			local := map[string]int64{}
			for code := 0; code < total; code++ {
				st := make([]int, n)
				c := code
				anyAvail := false
				for i := 0; i < n; i++ {
					st[i] = c % nStates
					c /= nStates
					anyAvail = anyAvail || availModel(st[i])
				}
				stNames := make([]string, n)
				for i := range st {
					stNames[i] = stName[st[i]]
				}
				// a fresh upstream per state vector so that round-robin counters start from zero
				ups, err := upstreams(text)
				if err != nil && pol == "header" {
					local["header-without-a-name/rejected-by-the-parser"]++
					break // a policy that cannot select is refused when the block is read: nothing to explore
				}
				if err != nil {
					rep.Broken("upstream parse: %v", err)
				}
				up := ups[0]
				hosts := hostsOf(up)
				for i, h := range hosts {
					setState(h, st[i])
				}
				idx := func(h *proxy.UpstreamHost) int {
					for i, x := range hosts {
						if x == h {
							return i
						}
					}
					return -1
				}
				switch {
				case pol == "round_robin":
					// start offsets 0..n-1, then n_avail*2 calls: each available backend exactly twice
					for off := 0; off < n; off++ {
						ups2, _ := upstreams(text)
						up2 := ups2[0]
						h2 := hostsOf(up2)
						for i, h := range h2 {
							setState(h, st[i])
						}
						r := kit.MustReq(kit.Get("GET", "/", "x"))
						for k := 0; k < off; k++ {
							up2.Select(r)
						}
						nav := 0
						for _, s := range st {
							if availModel(s) {
								nav++
							}
						}
						counts := make([]int, n)
						bad := ""
						for k := 0; k < nav*2 || (nav == 0 && k < 1); k++ {
							got := up2.Select(r)
							rep.Eval(1)
							if got == nil {
								if nav > 0 {
									bad = "nil although a backend is available"
								}
								continue
							}
							gi := -1
							for i, x := range h2 {
								if x == got {
									gi = i
								}
							}
							if !availModel(st[gi]) {
								bad = fmt.Sprintf("chose unavailable backend %d", gi)
							}
							counts[gi]++
						}
						if bad == "" {
							for i := range st {
								if availModel(st[i]) && counts[i] != 2 {
									bad = fmt.Sprintf("uneven: backend %d chosen %d times in %d calls over %d available", i, counts[i], nav*2, nav)
								}
							}
						}
						if bad != "" {
							rep.Violation("C05/policy/round_robin", bad, polCase{pol, stNames, fmt.Sprintf("offset %d", off), fmt.Sprint(counts), bad})
						}
						local[fmt.Sprintf("round_robin/avail=%d", nav)]++
					}
				case pol == "least_conn":
					// loads over {0,1,2}^n on top of the up/unhealthy pattern, no connection cap
					textLC := fmt.Sprintf("proxy / %s {\n policy least_conn\n max_fails 2\n fail_timeout 10s\n}", strings.Join(names, " "))
					if code >= pow(2, n)*pow(3, n) {
						continue
					}
					cc := code
					upsL, _ := upstreams(textLC)
					upL := upsL[0]
					hL := hostsOf(upL)
					loads := make([]int64, n)
					down := make([]bool, n)
					for i := 0; i < n; i++ {
						down[i] = cc%2 == 1
						cc /= 2
					}
					for i := 0; i < n; i++ {
						loads[i] = int64(cc % 3)
						cc /= 3
					}
					minLoad := int64(-1)
					for i, h := range hL {
						h.Conns = loads[i]
						if down[i] {
							h.Unhealthy = 1
						} else if minLoad < 0 || loads[i] < minLoad {
							minLoad = loads[i]
						}
					}
					r := kit.MustReq(kit.Get("GET", "/", "x"))
					desc := fmt.Sprintf("down=%v loads=%v", down, loads)
					st := verifrt.Explore(0, verifrt.Options{}, func() {
						got := upL.Select(r)
						verifrt.Logf("%d", func() int {
							for i, x := range hL {
								if x == got {
									return i
								}
							}
							return -1
						}())
					}, func(res verifrt.Result) string {
						rep.Eval(1)
						gi := -1
						fmt.Sscan(res.Log[0], &gi)
						if minLoad < 0 {
							if gi != -1 {
								return "returned a backend although none is available"
							}
							return ""
						}
						if gi == -1 {
							return "nil although a backend is available"
						}
						if down[gi] {
							return fmt.Sprintf("chose unavailable backend %d", gi)
						}
						if loads[gi] != minLoad {
							return fmt.Sprintf("chose backend %d with load %d, minimum among available is %d", gi, loads[gi], minLoad)
						}
						return ""
					}, nil)
					if st.FirstFail != nil {
						rep.Violation("C05/policy/least_conn", st.FirstFail.Failure, polCase{pol, nil, desc, "", st.FirstFail.Failure})
					}
					local[fmt.Sprintf("least_conn/minload=%d", minLoad)]++
				default:
					useKeys := keys[:16]
					if pol == "random" || pol == "first" {
						useKeys = keys[:1] // the key is not an input of these policies
					}
					for _, key := range useKeys {
						r := kit.MustReq(kit.Get("GET", "/"+key, "x", "X-Key: "+key))
						r.RemoteAddr = key + ":5555"
						var firstGot = -2
						est := verifrt.Explore(0, verifrt.Options{}, func() {
							g1 := idx(up.Select(r))
							g2 := g1
							if pol != "random" {
								g2 = idx(up.Select(r))
							}
							verifrt.Logf("%d %d", g1, g2)
						}, func(res verifrt.Result) string {
							rep.Eval(1)
							var g1, g2 int
							fmt.Sscan(res.Log[0], &g1, &g2)
							if firstGot == -2 {
								firstGot = g1
							}
							for _, g := range []int{g1, g2} {
								if anyAvail && g == -1 {
									return "nil although a backend is available"
								}
								if g >= 0 && !availModel(st[g]) {
									return fmt.Sprintf("chose unavailable backend %d (%s)", g, stName[st[g]])
								}
							}
							switch pol {
							case "ip_hash", "uri_hash", "header X-Key", "header x-key":
								if g1 != g2 {
									return fmt.Sprintf("same key sent to backend %d then %d with unchanged availability", g1, g2)
								}
							case "first":
								want := -1
								for i := range st {
									if availModel(st[i]) {
										want = i
										break
									}
								}
								if g1 != want {
									return fmt.Sprintf("first chose %d, earliest available is %d", g1, want)
								}
							}
							return ""
						}, nil)
						if est.FirstFail != nil {
							kind := "availability"
							if strings.Contains(est.FirstFail.Failure, "same key") {
								kind = "stickiness"
							} else if strings.Contains(est.FirstFail.Failure, "first chose") {
								kind = "first-order"
							}
							pname := strings.Fields(pol)[0]
							if pol == "header" {
								pname = "header-without-a-name"
							}
							sig := fmt.Sprintf("C05/policy/%s/%s", pname, kind)
							if strings.Contains(est.FirstFail.Failure, "nil although") {
								sig = fmt.Sprintf("C05/policy/%s/nil-with-available/n=%d", pname, n)
							}
							rep.Violation(sig, est.FirstFail.Failure, polCase{pol, stNames, key, fmt.Sprint(firstGot), est.FirstFail.Failure})
						}
						cl := "some-available"
						if !anyAvail {
							cl = "none-available"
						}
						local[fmt.Sprintf("%s/%s/n=%d", strings.Fields(pol)[0], cl, n)]++
					}
				}
			}
			rep.ClassN(local)
			if n == 3 {
				rep.Sample(map[string]interface{}{"upstream_block": text, "states": "every vector over {up,partly,unhealthy,failed,full}^3", "keys": keys[:4]})
			}
		}
	}
}

func pow(b, e int) int {
	r := 1
	for i := 0; i < e; i++ {
		r *= b
	}
	return r
}

// ---- retry ----

type script int

const (
	scOK script = iota
	scRefuse
	scFailMid // fails after reading part of the body
	nScripts
)

var scName = []string{"ok", "refuse", "fail-after-reading"}

type attempt struct {
	Backend int    `json:"backend"`
	Read    int    `json:"bytes_read"`
	OK      bool   `json:"prefix_matches_original"`
	Path    string `json:"path"`
}

type fakeRT struct {
	id     int
	sc     script
	orig   []byte
	log    *[]attempt
	midLen int
}

func (t *fakeRT) RoundTrip(r *http.Request) (*http.Response, error) {
	verifrt.Point()
	at := attempt{Backend: t.id, Path: r.URL.Path}
	defer func() { *t.log = append(*t.log, at) }()
	switch t.sc {
	case scRefuse:
		at.OK = true
		return nil, errors.New("connection refused")
	case scFailMid:
		n := t.midLen
		buf := make([]byte, n)
		got := 0
		if r.Body != nil {
			got, _ = io.ReadFull(r.Body, buf)
		}
		at.Read = got
		at.OK = bytes.Equal(buf[:got], t.orig[:min(got, len(t.orig))]) && got == min(n, len(t.orig))
		return nil, errors.New("connection reset by peer")
	}
	var body []byte
	if r.Body != nil {
		var rerr error
		body, rerr = io.ReadAll(r.Body)
		if rerr != nil {
			// a real transport fails the round trip when the request body cannot be read (a closed or consumed body)
			at.Read = len(body)
			at.OK = false
			return nil, fmt.Errorf("reading the request body: %v", rerr)
		}
	}
	at.Read = len(body)
	at.OK = bytes.Equal(body, t.orig)
	return &http.Response{StatusCode: 200, Header: http.Header{"X-Backend": {fmt.Sprint(t.id)}}, Body: io.NopCloser(strings.NewReader(fmt.Sprintf("ok-b%d", t.id))), ContentLength: -1, Request: r}, nil
}

// plainWriter is an http.ResponseWriter without Flusher/CloseNotifier so that
// the proxy starts no channel-based helper goroutines (see DESIGN §3.2).
type plainWriter struct {
	h      http.Header
	status int
	body   bytes.Buffer
}

func (w *plainWriter) Header() http.Header { return w.h }
func (w *plainWriter) WriteHeader(c int) {
	if w.status == 0 {
		w.status = c
	}
}
func (w *plainWriter) Write(p []byte) (int, error) {
	if w.status == 0 {
		w.status = 200
	}
	return w.body.Write(p)
}

type retryCase struct {
	Block    string    `json:"upstream_block"`
	Scripts  []string  `json:"backend_scripts"`
	BodyLen  int       `json:"body_len"`
	Chunked  bool      `json:"chunked"`
	Schedule []int     `json:"choices"`
	Attempts []attempt `json:"attempts"`
	Status   int       `json:"status"`
	Err      string    `json:"error"`
	Clock    string    `json:"virtual_clock_at_return"`
}

func retries(rep *kit.Report) {
	pols := []string{"first", "round_robin", "random", "least_conn", "ip_hash", "uri_hash", "header X-Key"}
	bodyLens := []int{0, 1, 70000}
	maxK := 3
	var states atomic.Int64
	item := 1000
	for k := 1; k <= maxK; k++ {
		for _, pol := range pols {
			for _, tf := range [][2]string{{"1s", "30s"}, {"1s", "600ms"}, {"2s", "30s"}, {"10s", "3s"}} {
				tryDur, failTO := tf[0], tf[1]
				for _, maxFails := range []int{1, 2} {
					for _, base := range []string{"", "/b"} {
						if !rep.Thorough() && (tryDur == "2s" || tryDur == "10s" || (maxFails == 2 && base != "")) {
							continue
						}
						var names []string
						for i := 0; i < k; i++ {
							names = append(names, fmt.Sprintf("http://b%d.test%s", i, base))
						}
						text := fmt.Sprintf("proxy / %s {\n policy %s\n try_duration %s\n fail_timeout %s\n max_fails %d\n}", strings.Join(names, " "), pol, tryDur, failTO, maxFails)
						tryD, _ := time.ParseDuration(tryDur)
						nsc := pow(int(nScripts), k)
						for sc := 0; sc < nsc; sc++ {
							item++
							if !rep.Mine(item) {
								continue
							}
							if rep.Expired() {
								rep.Capped("deadline reached in retry enumeration")
								return
							}
							scripts := make([]script, k)
							c := sc
							anyOK := false
							for i := 0; i < k; i++ {
								scripts[i] = script(c % int(nScripts))
								c /= int(nScripts)
								anyOK = anyOK || scripts[i] == scOK
							}
							for _, bl := range bodyLens {
								for _, chunked := range []bool{false, true} {
									hasMid := false
									for _, s := range scripts {
										hasMid = hasMid || s == scFailMid
									}
									if bl == 0 && hasMid {
										continue
									}
									if !rep.Thorough() && ((bl == 1 && chunked) || (bl == 70000 && !chunked)) {
										continue
									}
									bound := 1
									switch {
									case k == 1:
										bound = 3
									case k == 2:
										bound = 2
									}
									if rep.Thorough() {
										bound++
									} else if (pol == "random" || pol == "least_conn") && maxFails == 2 && k == 3 {
										bound-- // rand choices multiply the schedules; full bound in the thorough tier
									}
									runRetry(rep, text, scripts, bl, chunked, anyOK, tryD, maxFails, &states, bound)
								}
							}
						}
					}
				}
			}
		}
	}
	rep.AddInt("states", states.Load())
}

func runRetry(rep *kit.Report, text string, scripts []script, bl int, chunked, anyOK bool, tryD time.Duration, maxFails int, states *atomic.Int64, bound int) {
	orig := make([]byte, bl)
	for i := range orig {
		orig[i] = byte('a' + i%23)
	}
	scNames := make([]string, len(scripts))
	for i, s := range scripts {
		scNames[i] = scName[s]
	}
	var attempts []attempt
	var status int
	var herr error
	var retClock time.Duration
	var hosts proxy.HostPool
	seen := map[uint64]bool{}
	body := func() {
		attempts = nil
		ups, err := upstreams(text)
		if err != nil {
			panic(err)
		}
		hosts = hostsOf(ups[0])
		for i, h := range hosts {
			h.ReverseProxy.Transport = &fakeRT{id: i, sc: scripts[i], orig: orig, log: &attempts, midLen: (bl + 1) / 2}
		}
		p := proxy.Proxy{Upstreams: ups, Next: httpserver.EmptyNext}
		var raw string
		if chunked {
			raw = fmt.Sprintf("POST /x HTTP/1.1\r\nHost: h\r\nX-Key: k1\r\nTransfer-Encoding: chunked\r\n\r\n%x\r\n%s\r\n0\r\n\r\n", bl, orig)
		} else {
			raw = fmt.Sprintf("POST /x HTTP/1.1\r\nHost: h\r\nX-Key: k1\r\nContent-Length: %d\r\n\r\n%s", bl, orig)
		}
		r := kit.MustReq(raw)
		w := &plainWriter{h: http.Header{}}
		status, herr = p.ServeHTTP(w, r)
		if status == 0 {
			status = w.status
		}
		retClock = verifrt.Clock()
	}
	visit := func() {
		k := uint64(14695981039346656037)
		mix := func(v int64) { k = (k ^ uint64(v)) * 1099511628211 }
		for _, h := range hosts {
			mix(h.Conns)
			mix(int64(h.Fails))
			mix(int64(h.Unhealthy))
		}
		mix(int64(len(attempts)))
		mix(int64(verifrt.Clock() / time.Millisecond))
		seen[k] = true
	}
	// failures that expire inside the retry window make failing backends eligible
	// again for every policy (that is what fail_timeout means), so only then, or
	// under adversarial random draws with max_fails > 1, may the window be spent
	// without reaching the healthy backend
	randStarvable := strings.Contains(text, "fail_timeout 600ms") || strings.Contains(text, "fail_timeout 3s") ||
		((strings.Contains(text, "policy random") || strings.Contains(text, "policy least_conn")) && maxFails > 1)
	check := func(res verifrt.Result) string {
		rep.Eval(1)
		rep.AddInt("transitions", int64(res.Steps))
		for _, a := range attempts {
			if !a.OK {
				return fmt.Sprintf("attempt on backend %d read %d bytes that are not the original body from offset 0", a.Backend, a.Read)
			}
		}
		for _, h := range hosts {
			if h.Conns != 0 || h.Fails != 0 {
				return fmt.Sprintf("counters not back to zero at quiescence: conns=%d fails=%d", h.Conns, h.Fails)
			}
		}
		preempted := false
		for _, p := range res.Trace {
			if p.Preemptive && p.Choice != 0 {
				preempted = true
			}
		}
		if anyOK {
			// In schedules where time jumps while the request thread is runnable (a
			// preemption by a timer thread) the duration may legitimately be spent on
			// failing backends: then 502 at/after try_duration is the stated outcome.
			// Likewise an adversarial sequence of random draws can keep a random-based
			// policy on failing backends for the whole duration whenever a failing
			// backend can be chosen more than once (max_fails > 1 or failures expiring
			// within the duration); the statement cannot mean to exclude that.
			if status != 200 && !((preempted || randStarvable) && status == 502 && retClock >= tryD) {
				return fmt.Sprintf("a healthy backend exists but the client got %d (%v) after %d attempts at virtual time %v", status, herr, len(attempts), retClock)
			}
		} else {
			if status != 502 {
				return fmt.Sprintf("no healthy backend: expected 502, got %d", status)
			}
			if retClock < tryD {
				return fmt.Sprintf("502 returned at virtual time %v, before try_duration %v was spent", retClock, tryD)
			}
		}
		return ""
	}
	st := verifrt.Explore(bound, verifrt.Options{MaxSteps: 20000, Visit: visit}, body, check, rep.Expired)
	rep.AddInt(fmt.Sprintf("schedules_k%d_bound%d", len(scripts), bound), st.Executions)
	if os.Getenv("VERIF_DEBUG") != "" && st.Executions > 5000 {
		fmt.Fprintf(os.Stderr, "DEBUG %d execs depth %d: %q %v body=%d chunked=%v\n", st.Executions, st.MaxDepth, text, scNames, bl, chunked)
	}
	if st.Capped {
		rep.Capped(fmt.Sprintf("deadline reached inside a retry exploration (preemption bound %d)", bound))
		rep.AddInt("retry_scenarios_cut_short", 1)
	} else {
		rep.AddInt("retry_scenarios_completed", 1)
	}
	states.Add(int64(len(seen)))
	rep.AddInt("schedules", st.Executions)
	if st.FirstFail != nil {
		f := st.FirstFail.Failure
		kind := "other"
		switch {
		case strings.Contains(f, "not the original body"):
			kind = "body-not-replayed/multi-backend"
			if len(scripts) == 1 {
				kind = "body-not-replayed/single-backend"
			}
		case strings.Contains(f, "healthy backend exists"):
			kind = "healthy-not-reached"
		case strings.Contains(f, "before try_duration"):
			kind = "502-too-early"
		case strings.Contains(f, "expected 502"):
			kind = "not-502"
		case strings.Contains(f, "counters"):
			kind = "counters"
		}
		if st.FirstFail.FailKind != "check" {
			kind = st.FirstFail.FailKind
		}
		// re-run to capture the attempts of the failing schedule
		verifrt.Run(st.FirstPrefix, verifrt.Options{MaxSteps: 20000}, body)
		rep.Violation("C05/retry/"+kind, f, retryCase{text, scNames, bl, chunked, st.FirstPrefix, attempts, status, fmt.Sprint(herr), retClock.String()})
	}
	cl := "retry/none-healthy"
	if anyOK {
		cl = "retry/healthy-exists"
	}
	sorted := append([]string{}, scNames...)
	sort.Strings(sorted)
	rep.Class(fmt.Sprintf("%s/k=%d/%s", cl, len(scripts), strings.Join(sorted, "+")))
	if len(scripts) == 2 && bl == 1 {
		rep.Sample(map[string]interface{}{"upstream_block": text, "backend_scripts": scNames, "body_len": bl, "chunked": chunked, "schedules": st.Executions})
	}
}

// isolation: the choices a proxy block makes do not depend on the traffic of another block of the same
// policy (differential: every interleaving of m calls to block A and m calls to block B yields the
// sequences A and B produce when called alone)
func isolation(rep *kit.Report) {
	if !rep.Mine(0) {
		return
	}
	const m = 4
	for _, pol := range []string{"round_robin", "first", "ip_hash", "uri_hash", "header X-Key"} {
		for n := 2; n <= 3; n++ {
			var a, b []string
			for i := 0; i < n; i++ {
				a = append(a, fmt.Sprintf("http://a%d.test", i))
				b = append(b, fmt.Sprintf("http://b%d.test", i))
			}
			text := fmt.Sprintf("proxy /a %s {\n policy %s\n}\nproxy /b %s {\n policy %s\n}", strings.Join(a, " "), pol, strings.Join(b, " "), pol)
			reqs := make([]*http.Request, m)
			for k := range reqs {
				reqs[k] = kit.MustReq(kit.Get("GET", fmt.Sprintf("/p%d", k), "x", fmt.Sprintf("X-Key: k%d", k)))
				reqs[k].RemoteAddr = fmt.Sprintf("10.0.0.%d:1234", k+1)
			}
			run := func(pattern []int) (seq [2][]string) {
				ups, err := upstreams(text)
				if err != nil || len(ups) != 2 {
					rep.Broken("isolation: upstream parse: %v (%d upstreams)", err, len(ups))
				}
				cnt := [2]int{}
				for _, w := range pattern {
					h := ups[w].Select(reqs[cnt[w]])
					cnt[w]++
					rep.Eval(1)
					name := "nil"
					if h != nil {
						name = h.Name
					}
					seq[w] = append(seq[w], name)
				}
				return
			}
			aloneA := run([]int{0, 0, 0, 0})[0]
			aloneB := run([]int{1, 1, 1, 1})[1]
			for mask := 0; mask < 1<<(2*m); mask++ {
				var pattern []int
				ones := 0
				for k := 0; k < 2*m; k++ {
					w := (mask >> k) & 1
					ones += w
					pattern = append(pattern, w)
				}
				if ones != m {
					continue
				}
				got := run(pattern)
				if fmt.Sprint(got[0]) != fmt.Sprint(aloneA) || fmt.Sprint(got[1]) != fmt.Sprint(aloneB) {
					rep.Violation("C05/policy/blocks-interfere/"+strings.Fields(pol)[0], fmt.Sprintf("two `policy %s` blocks called in the order %v: block A chose %v (alone %v), block B chose %v (alone %v)", pol, pattern, got[0], aloneA, got[1], aloneB),
						polCase{pol, nil, fmt.Sprint(pattern), fmt.Sprint(got), "two proxy blocks with " + fmt.Sprint(n) + " backends each"})
				}
				rep.Class("isolation/" + strings.Fields(pol)[0])
			}
		}
	}
}

func main() {
	rep := kit.NewReport("C05", "model_checking",
		"policies: two blocks of one policy under every interleaving of 4+4 selections choose as they do alone; every pool of 1..N backends x every state vector over {up, partly, unhealthy, failed, full} x 9 policy lines (header policy also without a name and with its name in lower case) x 16 keys (residue-covering), math/rand draws enumerated; retry: every assignment of {ok, refuse, fail-after-reading} to 1..3 backends x 7 policies x try_duration x max_fails x base path x body {0,1,70000} x framing, all schedules of the request thread and its timer goroutines up to 1 preemption under a virtual clock; distinct_nontrivial = outcome classes")
	kit.Init()
	if !rep.IsWorker() {
		rep.Assume("rand.Int() is modelled as a choice over {0,1}: the policies only test x % count == 0")
		rep.Assume("time may pass at any scheduling point (no bounded-speed assumption); third-party and net/http code runs atomically between scheduling points")
		rep.RunWorkers(16)
		rep.Set("traces_validated_against_impl", rep.Evals())
		rep.Set("trace_validation", "every explored execution is an execution of the instrumented implementation itself (no separate model); the instrumentation only adds scheduling points")
		rep.Finish()
	}
	runtime.GOMAXPROCS(1)
	rep.Guard(func() {
		policies(rep)
		isolation(rep)
		retries(rep)
	})
	rep.Finish()
}
