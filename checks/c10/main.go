// C10 — Casketfile parsing is total, terminating and structure-preserving.
//
// (a) every string of <= L symbols over a macro-alphabet, and every sequence
// of <= M lines over a line alphabet (imports of files/snippets that import
// each other), parsed under a watchdog; (b) every small AST rendered under
// every layout choice and every split into imports/snippets, parsed back and
// compared token by token.
package main

import (
	"context"
	"encoding/json"
	"fmt"
	"os"
	"os/exec"
	"path/filepath"
	"regexp"
	"runtime"
	"strconv"
	"strings"
	"sync/atomic"
	"time"

	"github.com/tmpim/casket/casketfile"
	"verif/internal/kit"
)

var symbols = []string{"a", " ", "\n", "{", "}", "\"", "\\", "#", ",", "import ", "(s)", "{$V}", "\ufeff", "s"}

var lineAlpha = []string{"a", "a {", "}", "{", "import f", "import s", "import g*", "(s) {", "a b", "\"", "import cyc1", "import self", "d {", "a, b", "import \"n\nl\"", "import empty"}

type parseResult struct {
	blocks []casketfile.ServerBlock
	err    error
	panicV interface{}
	hung   bool
}

var dir string // scratch directory with import targets

// parseGuarded runs casketfile.Parse under the worker's watchdog goroutine
// (see startWatchdog): a parse that does not return within 10 s or grows the
// heap beyond 1 GiB is reported as non-termination and ends the worker,
// because a spinning goroutine cannot be stopped.
func parseGuarded(rep *kit.Report, name, text string) (r parseResult) {
	curInput.Store(&text)
	curName.Store(&name)
	curStart.Store(time.Now().UnixNano())
	defer curStart.Store(0)
	defer func() {
		if p := recover(); p != nil {
			r.panicV = p
		}
	}()
	r.blocks, r.err = casketfile.Parse(name, strings.NewReader(text), nil)
	return
}

var (
	curStart atomic.Int64
	curInput atomic.Pointer[string]
	curKind  atomic.Pointer[string]
	curName  atomic.Pointer[string]
)

// confirmHang parses one input in a fresh process and reports whether that did not finish within 60 s.
func confirmHang(name, text string) bool {
	b, _ := json.Marshal(map[string]string{"name": name, "text": text})
	f, err := os.CreateTemp("", "c10-confirm-*.json")
	if err != nil {
		return false
	}
	f.Write(b)
	f.Close()
	defer os.Remove(f.Name())
	ctx, cancel := context.WithTimeout(context.Background(), 75*time.Second)
	defer cancel()
	cmd := exec.CommandContext(ctx, os.Args[0], "-tier", "quick", "-worker", "0", "-nworkers", "1")
	cmd.Env = append(os.Environ(), "C10_CONFIRM="+f.Name())
	cmd.WaitDelay = 2 * time.Second
	out, _ := cmd.CombinedOutput()
	if strings.Contains(string(out), "CONFIRM-DONE") {
		return false
	}
	return ctx.Err() != nil || strings.Contains(string(out), "CONFIRM-HANG")
}

// confirmMode is the other side of confirmHang.
func confirmMode(file string) {
	b, _ := os.ReadFile(file)
	var in map[string]string
	json.Unmarshal(b, &in)
	done := make(chan struct{})
	go func() {
		defer func() { recover(); close(done) }()
		casketfile.Parse(in["name"], strings.NewReader(in["text"]), nil)
	}()
	t := time.NewTimer(60 * time.Second)
	for {
		select {
		case <-done:
			fmt.Println("CONFIRM-DONE")
			os.Exit(0)
		case <-t.C:
			fmt.Println("CONFIRM-HANG")
			os.Exit(3)
		case <-time.After(200 * time.Millisecond):
			var m runtime.MemStats
			runtime.ReadMemStats(&m)
			if m.HeapAlloc > 2<<30 {
				fmt.Println("CONFIRM-HANG (memory)")
				os.Exit(3)
			}
		}
	}
}

func startWatchdog(rep *kit.Report) {
	go func() {
		for {
			time.Sleep(200 * time.Millisecond)
			st := curStart.Load()
			if st == 0 {
				continue
			}
			var m runtime.MemStats
			runtime.ReadMemStats(&m)
			if time.Now().UnixNano()-st > int64(10*time.Second) || m.HeapAlloc > 1<<30 {
				kind := "strings"
				if k := curKind.Load(); k != nil {
					kind = *k
				}
				// believed only if the same input does not parse within 60 s in two fresh processes either
				// (an overloaded machine can stall a process for seconds)
				if confirmHang(*curName.Load(), *curInput.Load()) && confirmHang(*curName.Load(), *curInput.Load()) {
					rep.Violation("C10/"+kind+"/non-termination", "Parse did not return within 10 s / 1 GiB, and not within 60 s in two fresh processes", strCase{*curInput.Load(), os.Getenv("V"), "hang"})
				} else {
					rep.Class("stall-not-reproduced-in-a-fresh-process")
				}
				rep.Capped("worker stopped after a parse that did not return in 10 s")
				os.RemoveAll(dir)
				rep.Finish()
			}
		}
	}()
}

var errRe = regexp.MustCompile(`(?s)^(.*?):(\d+) - (Error during parsing|Syntax error): `) // (a file name may contain a line break)

type strCase struct {
	Input string `json:"input"`
	Env   string `json:"env_V"`
	Got   string `json:"got"`
}

func classify(rep *kit.Report, kind, text string, res parseResult, local map[string]int64, knownFiles map[string]bool) {
	rep.Eval(1)
	kk := kind
	curKind.Store(&kk)
	switch {
	case res.hung:
		rep.Violation("C10/"+kind+"/non-termination", "Parse did not return within 10 s / 1 GiB (confirmed by the watchdog in an isolated goroutine)", strCase{text, os.Getenv("V"), "hang"})
		rep.Capped("worker stopped after a non-terminating parse")
		rep.Finish()
	case res.panicV != nil:
		rep.Violation("C10/"+kind+"/panic", fmt.Sprintf("Parse panicked: %v", res.panicV), strCase{text, os.Getenv("V"), fmt.Sprint(res.panicV)})
		local["panic"]++
	case res.err != nil:
		m := errRe.FindStringSubmatch(res.err.Error())
		if m == nil {
			rep.Violation("C10/"+kind+"/error-without-file-line", "error does not name file and line: "+res.err.Error(), strCase{text, os.Getenv("V"), res.err.Error()})
			local["error-bad-format"]++
			return
		}
		line, _ := strconv.Atoi(m[2])
		maxLine := strings.Count(text, "\n") + 2
		if !knownFiles[m[1]] {
			rep.Violation("C10/"+kind+"/error-names-unknown-file", "error names a file that is not part of the input: "+res.err.Error(), strCase{text, os.Getenv("V"), res.err.Error()})
		} else if m[1] == "Casketfile" || strings.HasSuffix(m[1], "/Casketfile") {
			if line < 1 || line > maxLine {
				rep.Violation("C10/"+kind+"/error-line-out-of-range", fmt.Sprintf("error line %d outside 1..%d: %s", line, maxLine, res.err.Error()), strCase{text, os.Getenv("V"), res.err.Error()})
			}
		}
		msg := res.err.Error()[len(m[0]):]
		if i := strings.IndexAny(msg, ":'/-["); i > 0 {
			msg = msg[:i]
		}
		w := strings.Fields(msg)
		if len(w) > 3 {
			w = w[:3]
		}
		local["error: "+strings.Join(w, " ")]++
	default:
		local[fmt.Sprintf("ok/%d-blocks", len(res.blocks))]++
	}
}

func setupFiles() map[string]bool {
	known := map[string]bool{}
	w := func(name, content string) {
		p := filepath.Join(dir, name)
		os.WriteFile(p, []byte(content), 0o644)
		known[p] = true
	}
	w("a", "b c\n")
	w("f", "x y\nz\n")
	w("g1", "g one\n")
	w("g2", "g two {\n}\n")
	w("g3", "import g1\n") // a later match of g* importing an earlier one again: a diamond, not a cycle
	w("cyc1", "import cyc2\n")
	w("cyc2", "import cyc1\n")
	w("self", "q\nimport self\n")
	w("s", "s-file\n")
	w("n\nl", "import \"n\nl\"\n") // a file whose name contains a line break and which imports itself
	w("empty", "")                 // a zero-byte file
	known[filepath.Join(dir, "Casketfile")] = true
	return known
}

func partA(rep *kit.Report, known map[string]bool) {
	L := 6
	M := 5
	if rep.Thorough() {
		L, M = 7, 6
	}
	name := filepath.Join(dir, "Casketfile")
	L0, M0 := L, M
	for ei, env := range []string{"val", "", "{", "{$V}", "a\nb"} { // (the last two: a value that names itself; a value with a line break)
		L, M = L0, M0
		if ei >= 3 {
			L, M = L0-1, M0-1 // the two unusual values with strings and line sequences one shorter
		}
		if env == "" {
			os.Unsetenv("V")
		} else {
			os.Setenv("V", env)
		}
		// strings over the macro alphabet; the first two symbols select the shard
		n := len(symbols)
		item := 0
		var rec func(prefix string, depth int, local map[string]int64)
		rec = func(prefix string, depth int, local map[string]int64) {
			classify(rep, "strings", prefix, parseGuarded(rep, name, prefix), local, known)
			if depth == L {
				return
			}
			for _, s := range symbols {
				rec(prefix+s, depth+1, local)
			}
		}
		if rep.Mine(0) {
			local := map[string]int64{}
			classify(rep, "strings", "", parseGuarded(rep, name, ""), local, known)
			for _, s := range symbols {
				classify(rep, "strings", s, parseGuarded(rep, name, s), local, known)
			}
			rep.ClassN(local)
		}
		for i := 0; i < n*n; i++ {
			item++
			if !rep.Mine(item) {
				continue
			}
			if rep.Expired() {
				rep.Capped("deadline reached in string enumeration")
				return
			}
			local := map[string]int64{}
			rec(symbols[i/n]+symbols[i%n], 2, local)
			rep.ClassN(local)
		}
		// line sequences
		nl := len(lineAlpha)
		var recL func(lines []string, local map[string]int64)
		recL = func(lines []string, local map[string]int64) {
			resL := parseGuarded(rep, name, strings.Join(lines, "\n"))
			classify(rep, "lines", strings.Join(lines, "\n"), resL, local, known)
			if resL.err != nil && strings.Contains(resL.err.Error(), "Import cycle detected") {
				cyclic := false
				for _, l := range lines {
					if l == "import cyc1" || l == "import self" || l == "import s" || strings.HasPrefix(l, "import \"n") {
						cyclic = true // (these lines can close a cycle; no other line of the alphabet can)
					}
				}
				if !cyclic {
					rep.Violation("C10/lines/import-cycle-reported-without-a-cycle", "an import cycle is reported for an input none of whose imports is cyclic: "+resL.err.Error(), strCase{strings.Join(lines, "\n"), os.Getenv("V"), resL.err.Error()})
				}
			}
			if len(lines) == M {
				return
			}
			for _, l := range lineAlpha {
				recL(append(lines, l), local)
			}
		}
		for i := 0; i < nl*nl; i++ {
			item++
			if !rep.Mine(item) {
				continue
			}
			if rep.Expired() {
				rep.Capped("deadline reached in line enumeration")
				return
			}
			local := map[string]int64{}
			recL([]string{lineAlpha[i/nl], lineAlpha[i%nl]}, local)
			rep.ClassN(local)
		}
	}
	if rep.Mine(1) {
		rep.Sample(map[string]interface{}{"kind": "macro-alphabet string", "input": "(s){$V}import a\n\"", "alphabet": symbols})
		rep.Sample(map[string]interface{}{"kind": "line sequence", "input": "(s) {\nimport s\n}\nimport s", "alphabet": lineAlpha})
	}
}

// ---- part (b): print-then-parse ----

type dirAST struct {
	Name string
	Args []string
	Sub  [][]string // sub-block lines (token lists); nil = no sub-block
}

type blockAST struct {
	Keys []string
	Dirs []dirAST
}

// (W is always set to the text {$V}: a value in one spelling that looks like a reference in the other)
var tokAlpha = []string{"a", "b c", "q\"q", "", "x{$V}y", "multi\nline", "e\\\nf", "{$}{$V}", "{%W%}"}

func needsQuote(t string) bool {
	return t == "" || strings.ContainsAny(t, " \t\n\"#") || t == "{" || t == "}"
}

func quote(t string) string { return "\"" + strings.ReplaceAll(t, "\"", "\\\"") + "\"" }

type layout struct {
	sep      string
	braceNL  bool // server-block brace on its own line
	comment  bool
	crlf     bool
	blank    bool
	quoteAll bool
	commaKey int // 0: keys separated by space, 1: ", " 2: ",\n"
	noBraces bool
}

func (l layout) tok(t string) string {
	if l.quoteAll || needsQuote(t) {
		return quote(t)
	}
	return t
}

func (l layout) dirLines(d dirAST) []string {
	parts := []string{l.tok(d.Name)}
	for _, a := range d.Args {
		parts = append(parts, l.tok(a))
	}
	line := strings.Join(parts, l.sep)
	if d.Sub == nil {
		return []string{line}
	}
	out := []string{line + l.sep + "{"}
	for _, sl := range d.Sub {
		var sp []string
		for _, t := range sl {
			sp = append(sp, l.tok(t))
		}
		out = append(out, "\t"+strings.Join(sp, l.sep))
	}
	return append(out, "}")
}

// render prints blocks; split >= 0 moves that directive (global index) out:
// mode 1 into an import file, mode 2 into a snippet defined before the blocks.
func (l layout) render(blocks []blockAST, split, mode int) (main string, files map[string]string) {
	files = map[string]string{}
	var b strings.Builder
	nlc := "\n"
	eol := func() {
		if l.comment {
			b.WriteString(" # c")
		}
		b.WriteString(nlc)
		if l.blank {
			b.WriteString(nlc)
		}
	}
	var body [][]string // per block lines
	gi := 0
	snippet := ""
	for _, blk := range blocks {
		var lines []string
		for _, d := range blk.Dirs {
			dl := l.dirLines(d)
			if gi == split {
				switch mode {
				case 1:
					files["imp1"] = strings.Join(dl, "\n") + "\n"
					dl = []string{"import" + l.sep + "imp1"}
				case 2:
					snippet = "(snip)" + l.sep + "{\n" + strings.Join(dl, "\n") + "\n}\n"
					dl = []string{"import" + l.sep + "snip"}
				case 3: // an empty snippet imported in front of this directive changes nothing
					snippet = "(nothing)" + l.sep + "{\n}\n"
					dl = append([]string{"import" + l.sep + "nothing"}, dl...)
				case 4: // likewise an import file holding only a comment
					files["imp0"] = "# nothing here\n"
					dl = append([]string{"import" + l.sep + "imp0"}, dl...)
				case 5: // likewise a zero-byte import file
					files["imp0"] = ""
					dl = append([]string{"import" + l.sep + "imp0"}, dl...)
				case 6: // a glob over three files: the directive in the middle one, a comment-only file before it, after it a file that imports the first one again
					files["glob-a"] = "# only a comment\n"
					files["glob-b"] = strings.Join(dl, "\n") + "\n"
					files["glob-c"] = "import glob-a\n" // (a later match importing an earlier one again is no cycle)
					dl = []string{"import" + l.sep + "glob-*"}
				case 7: // the same with the directive in the last file
					files["glob-a"] = "# only a comment\n"
					files["glob-b"] = ""
					files["glob-c"] = strings.Join(dl, "\n") + "\n"
					dl = []string{"import" + l.sep + "glob-*"}
				}
			}
			lines = append(lines, dl...)
			gi++
		}
		body = append(body, lines)
	}
	b.WriteString(snippet)
	for bi, blk := range blocks {
		var ks []string
		for ki, k := range blk.Keys {
			if l.commaKey > 0 && ki < len(blk.Keys)-1 && (l.quoteAll || needsQuote(k)) {
				// the separating comma belongs to the key token, so it goes inside the quotes
				ks = append(ks, quote(k+",")+"\x00")
				continue
			}
			ks = append(ks, l.tok(k))
		}
		switch l.commaKey {
		case 0:
			b.WriteString(strings.Join(ks, l.sep))
		case 1:
			b.WriteString(strings.ReplaceAll(strings.Join(ks, ","+l.sep), "\x00,", ""))
		case 2:
			b.WriteString(strings.ReplaceAll(strings.Join(ks, ",\n"), "\x00,", ""))
		}
		if l.noBraces {
			eol()
		} else if l.braceNL {
			eol()
			b.WriteString("{")
			eol()
		} else {
			b.WriteString(l.sep + "{")
			eol()
		}
		for _, ln := range body[bi] {
			b.WriteString(ln)
			if strings.HasSuffix(ln, "\"") && l.comment {
				// a comment directly after a closing quote still needs the separator, which eol adds
			}
			eol()
		}
		if !l.noBraces {
			b.WriteString("}")
			eol()
		}
	}
	main = b.String()
	if l.crlf {
		// CRLF only outside of quoted tokens would need a lexer; use it when no token has a line break
		main = strings.ReplaceAll(main, "\n", "\r\n")
		for k, v := range files {
			files[k] = strings.ReplaceAll(v, "\n", "\r\n")
		}
	}
	return
}

// expand is the reference for environment references: one pass from left to right over both spellings ({$NAME} and
// {%NAME%}); a value is inserted as it is (it is not searched for references again), an empty name is ordinary text.
func expand(t string) string {
	var b strings.Builder
	for {
		i1, i2 := strings.Index(t, "{$"), strings.Index(t, "{%")
		i, end := i1, "}"
		if i1 < 0 || (i2 >= 0 && i2 < i1) {
			i, end = i2, "%}"
		}
		if i < 0 {
			break
		}
		j := strings.Index(t[i+2:], end)
		if j < 0 {
			// (not a reference in this spelling; the alphabet has no such token)
			b.WriteString(t[:i+2])
			t = t[i+2:]
			continue
		}
		name := t[i+2 : i+2+j]
		if name == "" {
			b.WriteString(t[:i+2+j+len(end)])
		} else {
			b.WriteString(t[:i])
			b.WriteString(os.Getenv(name))
		}
		t = t[i+2+j+len(end):]
	}
	b.WriteString(t)
	return b.String()
}

type rtCase struct {
	Main   string            `json:"casketfile"`
	Files  map[string]string `json:"import_files"`
	Env    string            `json:"env_V"`
	Want   string            `json:"want"`
	Got    string            `json:"got"`
	Layout string            `json:"layout"`
}

func want(blocks []blockAST) string {
	var b strings.Builder
	for _, blk := range blocks {
		b.WriteString("BLOCK keys=")
		for _, k := range blk.Keys {
			if e := expand(k); e != "" {
				fmt.Fprintf(&b, "%q,", e)
			}
		}
		order := []string{}
		toks := map[string][]string{}
		for _, d := range blk.Dirs {
			n := expand(d.Name)
			if _, ok := toks[n]; !ok {
				order = append(order, n)
			}
			toks[n] = append(toks[n], n) // name token: compared modulo environment expansion (see got)
			for _, a := range d.Args {
				toks[n] = append(toks[n], expand(a))
			}
			if d.Sub != nil {
				toks[n] = append(toks[n], "{")
				for _, sl := range d.Sub {
					for _, t := range sl {
						toks[n] = append(toks[n], expand(t))
					}
				}
				toks[n] = append(toks[n], "}")
			}
		}
		for _, n := range order {
			fmt.Fprintf(&b, " %s=%q", n, toks[n])
		}
		b.WriteString("\n")
	}
	return b.String()
}

func got(blocks []casketfile.ServerBlock, ref []blockAST) string {
	var b strings.Builder
	for bi, blk := range blocks {
		b.WriteString("BLOCK keys=")
		for _, k := range blk.Keys {
			fmt.Fprintf(&b, "%q,", k)
		}
		// directive order as in the reference (maps are unordered)
		seen := map[string]bool{}
		if bi < len(ref) {
			for _, d := range ref[bi].Dirs {
				n := expand(d.Name)
				if seen[n] {
					continue
				}
				seen[n] = true
				if toks, ok := blk.Tokens[n]; ok {
					var ts []string
					// name positions are those of the reference; there the text is compared
					// modulo environment expansion (the statement speaks of argument tokens)
					nameAt := map[int]bool{}
					pos := 0
					for _, d2 := range ref[bi].Dirs {
						if expand(d2.Name) != n {
							continue
						}
						nameAt[pos] = true
						pos += 1 + len(d2.Args)
						if d2.Sub != nil {
							pos += 2
							for _, sl := range d2.Sub {
								pos += len(sl)
							}
						}
					}
					for i, t := range toks {
						if nameAt[i] {
							ts = append(ts, expand(t.Text))
						} else {
							ts = append(ts, t.Text)
						}
					}
					fmt.Fprintf(&b, " %s=%q", n, ts)
				}
			}
		}
		for n, toks := range blk.Tokens {
			if !seen[n] {
				var ts []string
				for _, t := range toks {
					ts = append(ts, t.Text)
				}
				fmt.Fprintf(&b, " EXTRA:%s=%q", n, ts)
			}
		}
		b.WriteString("\n")
	}
	return b.String()
}

// what this worker last wrote into each import file of part (b)
var (
	written = map[string]string{}
	subMade bool
)

func partB(rep *kit.Report) {
	subs := [][][]string{nil, {{"s1", "a"}}, {{"s1"}, {"s2", "b c", "q\"q"}}, {}}
	var argLists [][]string
	argLists = append(argLists, nil)
	for _, a := range tokAlpha {
		argLists = append(argLists, []string{a})
	}
	for _, a := range tokAlpha {
		for _, b := range tokAlpha {
			argLists = append(argLists, []string{a, b})
		}
	}
	if rep.Thorough() {
		for _, a := range tokAlpha {
			for _, b := range tokAlpha {
				for _, c := range tokAlpha[:3] {
					argLists = append(argLists, []string{a, b, c})
				}
			}
		}
	}
	var dirs []dirAST
	for _, al := range argLists {
		for _, sb := range subs {
			dirs = append(dirs, dirAST{"d1", al, sb})
		}
	}
	second := []dirAST{{"d2", nil, nil}, {"d1", []string{"b c"}, nil}, {"d2", []string{"", "x{$V}y"}, [][]string{{"s1", "a"}}}, {"d{$V}", []string{"a"}, nil}}
	keySets := [][]string{{"k1"}, {"k1", "k2.test:80"}, {"x{$V}y"}, {"k1", "x{$V}y/p"}}
	var asts [][]blockAST
	for _, d := range dirs {
		asts = append(asts, []blockAST{{[]string{"k1"}, []dirAST{d}}})
		for _, s := range second {
			asts = append(asts, []blockAST{{[]string{"k1"}, []dirAST{d, s}}})
			asts = append(asts, []blockAST{{[]string{"k1"}, []dirAST{s, d}}})
		}
	}
	for i, ks := range keySets {
		for j := 0; j < len(dirs); j += 7 {
			asts = append(asts, []blockAST{{ks, []dirAST{dirs[j]}}, {keySets[(i+1)%len(keySets)], []dirAST{second[j%len(second)], dirs[(j+3)%len(dirs)]}}})
		}
	}
	var layouts []layout
	for _, sep := range []string{" ", "\t", "  "} {
		for _, bnl := range []bool{false, true} {
			for _, cm := range []bool{false, true} {
				for _, crlf := range []bool{false, true} {
					for _, bl := range []bool{false, true} {
						for _, qa := range []bool{false, true} {
							for ck := 0; ck < 3; ck++ {
								layouts = append(layouts, layout{sep, bnl, cm, crlf, bl, qa, ck, false})
							}
						}
					}
				}
			}
		}
	}
	rep.Set("round_trip_asts", len(asts))
	rep.Set("round_trip_layouts", len(layouts))
	for ai, ast := range asts {
		if !rep.Mine(ai) {
			continue
		}
		if rep.Expired() {
			rep.Capped("deadline reached in round-trip enumeration")
			return
		}
		local := map[string]int64{}
		nd := 0
		multiline := false
		for _, b := range ast {
			nd += len(b.Dirs)
			for _, d := range b.Dirs {
				for _, a := range d.Args {
					multiline = multiline || strings.Contains(a, "\n")
				}
			}
		}
		for ei, env := range []string{"val", "", "x\ny", "{$V}"} {
			if env == "" {
				os.Unsetenv("V")
			} else {
				os.Setenv("V", env)
			}
			w := want(ast)
			for li, lay := range layouts {
				if lay.crlf && multiline {
					continue // a CR inside a quoted token is content, not layout
				}
				if ei >= 2 && li%8 != 0 && !rep.Thorough() {
					continue // quick tier: the two unusual environment values with every eighth layout
				}
				if len(ast) == 1 && li%5 == 0 {
					lay.noBraces = true
					lay.braceNL = false
				}
				for split := -1; split < nd; split++ {
					for mode := 1; mode <= 7; mode++ {
						if split == -1 && mode >= 2 {
							continue
						}
						if mode >= 6 && li%4 != 0 && !rep.Thorough() {
							continue // quick tier: the glob modes with every fourth layout
						}
						if lay.noBraces && (mode == 2 || mode == 3) {
							continue // a snippet before a brace-less block would swallow it: not a well-formed rendering
						}
						if mode >= 3 && li%4 != 0 {
							continue // the empty-import variants are explored under every fourth layout
						}
						main, files := lay.render(ast, split, mode)
						sub := filepath.Join(dir, fmt.Sprintf("rt%d", *kit.FlagWorker))
						if !subMade {
							os.MkdirAll(sub, 0o755)
							subMade = true
						}
						for k, v := range files {
							if old, ok := written[k]; ok && old == v {
								continue // the file already holds this text (most import files repeat from case to case)
							}
							os.WriteFile(filepath.Join(sub, k), []byte(v), 0o644)
							written[k] = v
						}
						res := parseGuarded(rep, filepath.Join(sub, "Casketfile"), main)
						rep.Eval(1)
						g := ""
						switch {
						case res.hung:
							g = "hang"
						case res.panicV != nil:
							g = fmt.Sprintf("panic: %v", res.panicV)
						case res.err != nil:
							g = "error: " + res.err.Error()
						default:
							g = got(res.blocks, ast)
						}
						if g != w {
							kind := "tokens-differ"
							if strings.HasPrefix(g, "error") {
								kind = "well-formed-input-rejected"
							} else if strings.HasPrefix(g, "panic") || g == "hang" {
								kind = "crash"
							}
							where := "inline"
							if split >= 0 {
								where = []string{"", "import-file", "snippet", "empty-snippet", "empty-import-file", "zero-byte-import-file", "glob-import", "glob-import-last"}[mode]
							}
							rep.Violation("C10/round-trip/"+kind+"/"+where, "parsed structure differs from the printed AST", rtCase{main, files, env, w, g, fmt.Sprintf("%+v", lay)})
						}
						cl := "inline"
						if split >= 0 {
							cl = []string{"", "import-file", "snippet", "empty-snippet", "empty-import-file", "zero-byte-import-file", "glob-import", "glob-import-last"}[mode]
						}
						local[fmt.Sprintf("round-trip/%s/blocks=%d/dirs=%d", cl, len(ast), nd)]++
					}
				}
			}
		}
		rep.ClassN(local)
		if ai == 40 {
			m, f := layouts[13].render(ast, 0, 1)
			rep.Sample(map[string]interface{}{"kind": "round trip", "casketfile": m, "import_files": f, "expected": want(ast)})
		}
	}
}

// ---- part (c): what a directive's setup code sees ----
//
// Every directive reads its tokens through a Dispenser (Next, RemainingArgs, NextLine ...). For every pair of directive
// lines of <=3 arguments over {plain, quoted with a space, an environment reference, quoted with a line break}, under an
// ordinary value and under a value that contains a line break, the arguments a Dispenser hands out for each line must be
// exactly those written on it.
func partC(rep *kit.Report) {
	if !rep.Mine(2) {
		return
	}
	type arg struct{ src, val string }
	name := filepath.Join(dir, "Casketfile")
	for _, env := range []string{"val", "x\ny"} {
		os.Setenv("V", env)
		alpha := []arg{{"a", "a"}, {"\"q r\"", "q r"}, {"{$V}", env}, {"\"m\nl\"", "m\nl"}}
		var lines [][]arg
		var gen func(cur []arg)
		gen = func(cur []arg) {
			if len(cur) > 0 {
				lines = append(lines, append([]arg{}, cur...))
			}
			if len(cur) == 3 {
				return
			}
			for _, a := range alpha {
				gen(append(cur, a))
			}
		}
		gen(nil)
		render := func(l []arg) (src string, vals []string) {
			for _, a := range l {
				src += " " + a.src
				vals = append(vals, a.val)
			}
			return
		}
		for _, l1 := range lines {
			for _, l2 := range lines {
				s1, v1 := render(l1)
				s2, v2 := render(l2)
				text := "host {\n\td1" + s1 + "\n\td2" + s2 + "\n}\n"
				res := parseGuarded(rep, name, text)
				rep.Eval(1)
				gotS := ""
				switch {
				case res.panicV != nil:
					gotS = fmt.Sprintf("panic: %v", res.panicV)
				case res.err != nil:
					gotS = "error: " + res.err.Error()
				case len(res.blocks) != 1:
					gotS = fmt.Sprintf("%d blocks", len(res.blocks))
				default:
					for _, dn := range []string{"d1", "d2"} {
						d := casketfile.NewDispenserTokens(name, res.blocks[0].Tokens[dn])
						var seen [][]string
						for d.Next() {
							seen = append(seen, append([]string{d.Val()}, d.RemainingArgs()...))
						}
						gotS += fmt.Sprintf("%s:%q ", dn, seen)
					}
				}
				want := fmt.Sprintf("d1:%q d2:%q ", [][]string{append([]string{"d1"}, v1...)}, [][]string{append([]string{"d2"}, v2...)})
				if gotS != want {
					rep.Violation("C10/dispenser-view/arguments-of-a-line-differ", "the arguments a Dispenser hands out for a directive line are not those written on it", rtCase{Main: text, Env: env, Want: want, Got: gotS})
				}
				rep.Class("dispenser-view/env-with-line-break=" + fmt.Sprint(strings.Contains(env, "\n")))
			}
		}
	}
	os.Unsetenv("V")
	// Two lines of the same directive, each written inline, in a snippet defined above the site, or in an imported file (9
	// placements), read back both ways setup code walks a directive's lines: `for Next() { RemainingArgs() }` and
	// `for NextLine() { RemainingArgs() }` (header and push do the latter). Each line keeps its own arguments in every placement.
	imp := filepath.Join(dir, "c2-imported")
	places := []string{"inline", "snippet", "file"}
	var short [][]arg2
	for _, a := range []arg2{{"a", "a"}, {"\"q r\"", "q r"}, {"\"m\nl\"", "m\nl"}} {
		short = append(short, []arg2{a})
		for _, b := range []arg2{{"b", "b"}, {"\"m\nl\"", "m\nl"}} {
			short = append(short, []arg2{a, b})
		}
	}
	for _, p1 := range places {
		for _, p2 := range places {
			for _, l1 := range short {
				for _, l2 := range short {
					line := func(l []arg2) (src string, vals []string) {
						src, vals = "d1", []string{"d1"}
						for _, a := range l {
							src += " " + a.src
							vals = append(vals, a.val)
						}
						return
					}
					s1, v1 := line(l1)
					s2, v2 := line(l2)
					head, body, file := "", "", ""
					put := func(place, src, snip string) {
						switch place {
						case "inline":
							body += "\t" + src + "\n"
						case "snippet":
							head += "(" + snip + ") {\n\t" + src + "\n}\n"
							body += "\timport " + snip + "\n"
						case "file":
							file += src + "\n"
							body += "\timport " + imp + "\n"
						}
					}
					if p1 == "file" && p2 == "file" {
						continue // (one file holding both lines is the inline case again)
					}
					put(p1, s1, "s1")
					h1 := head
					head = ""
					put(p2, s2, "s2")
					// (snippets are defined in the order of use; when both lines are snippets, l1's length decides which is defined first)
					if p1 == "snippet" && p2 == "snippet" && len(l1) == 2 {
						head = head + h1
					} else {
						head = h1 + head
					}
					os.WriteFile(imp, []byte(file), 0o644)
					text := head + "host {\n" + body + "}\n"
					res := parseGuarded(rep, name, text)
					rep.Eval(1)
					want := fmt.Sprintf("%q", [][]string{v1, v2})
					got := map[string]string{}
					switch {
					case res.panicV != nil:
						got["parse"] = fmt.Sprintf("panic: %v", res.panicV)
					case res.err != nil:
						got["parse"] = "error: " + res.err.Error()
					case len(res.blocks) != 1:
						got["parse"] = fmt.Sprintf("%d blocks", len(res.blocks))
					default:
						d := casketfile.NewDispenserTokens(name, res.blocks[0].Tokens["d1"])
						var seen [][]string
						for d.Next() {
							seen = append(seen, append([]string{d.Val()}, d.RemainingArgs()...))
						}
						got["Next"] = fmt.Sprintf("%q", seen)
						d = casketfile.NewDispenserTokens(name, res.blocks[0].Tokens["d1"])
						seen = nil
						for d.NextLine() {
							seen = append(seen, append([]string{d.Val()}, d.RemainingArgs()...))
						}
						got["NextLine"] = fmt.Sprintf("%q", seen)
					}
					for how, g := range got {
						if g != want {
							rep.Violation("C10/dispenser-view/lines-of-one-directive-differ/"+how+"/"+p1+"+"+p2, "two lines of one directive, the first written "+p1+" and the second "+p2+": walking them with "+how+" does not give each line its own arguments", rtCase{Main: text, Files: map[string]string{imp: file}, Want: want, Got: g})
						}
					}
					rep.Class("dispenser-view/two-lines/" + p1 + "+" + p2)
				}
			}
		}
	}
	os.Remove(imp)
}

type arg2 struct{ src, val string }

func main() {
	rep := kit.NewReport("C10", "exploration",
		"(a) every string of <=6 (thorough 7) symbols over a 14-symbol macro-alphabet and every sequence of <=5 (6) lines over a 14-line alphabet with import targets that are acyclic, self-importing and mutually importing, x 3 environments (and, one symbol shorter, 2 more: a value naming itself, a value with a line break), each parsed under a watchdog; (b) every AST of a menu (~1k) x 288 layouts x every single-directive split into an import file or snippet x 2 environments, printed, parsed and compared; (c) every pair of directive lines of <=3 arguments over 4 argument shapes under 2 environment values, read back through a Dispenser as the setup code of a directive does, and two lines of one directive placed inline, in a snippet or in an imported file (8 placements) walked with Next and with NextLine; distinct_nontrivial = outcome classes (error kinds, block counts, round-trip shapes)")
	if !rep.IsWorker() {
		rep.Assume("glob imports limited to one pattern; import targets live next to the Casketfile")
		rep.RunWorkers(16)
		rep.Finish()
	}
	if f := os.Getenv("C10_CONFIRM"); f != "" {
		confirmMode(f)
	}
	runtime.GOMAXPROCS(2) // (a worker parses one text at a time; 16 workers run side by side)
	os.Setenv("W", "{$V}")
	dir = kit.TempDir("c10")
	if d, err := os.MkdirTemp("/dev/shm", "verif-c10-"); err == nil {
		// the import files are rewritten a million times: keep them in memory when the system offers it
		os.RemoveAll(dir)
		dir = d
	}
	defer os.RemoveAll(dir)
	known := setupFiles()
	startWatchdog(rep)
	partA(rep, known)
	partB(rep)
	partC(rep)
	os.RemoveAll(dir)
	rep.Finish()
}
