// C02 — served file content stays inside the root and never includes hidden
// files; redirects stay on the origin.
package main

import (
	"fmt"
	"net/url"
	"os"
	"path"
	"path/filepath"
	"regexp"
	"sort"
	"strings"
	"time"

	"verif/internal/kit"
)

var segs = []string{"a.txt", "dir", "dirx", "Casketfile", "casketfile", "..", ".", "", "%2e%2e", "%2f", "%5c", "..%2f", "DIR", "index.html", "outside.txt", "outside", "b.txt", "%2e"}

// files inside the root (relative path -> token id); siblings carry their own tokens
var rootFiles = []string{"a.txt", "a.txt.gz", "a.txt.br", "a.txt.zst", "dir/b.txt", "dirx/index.html", "dirx/c.txt", "dirx/index.html.gz", "Casketfile"}

var locOK = regexp.MustCompile(`^/([^/\\]|$)`)

type c02case struct {
	Casketfile string   `json:"casketfile"`
	Request    string   `json:"request"`
	Status     int      `json:"status"`
	Location   string   `json:"location,omitempty"`
	Found      []string `json:"tokens_or_names_found"`
	Allowed    []string `json:"allowed"`
}

// offers reports whether an Accept-Encoding value lists coding with a non-zero quality.
func offers(ae, coding string) bool {
	for _, part := range strings.Split(ae, ",") {
		f := strings.Split(part, ";")
		if strings.TrimSpace(f[0]) != coding {
			continue
		}
		q := 1.0
		for _, p := range f[1:] {
			p = strings.TrimSpace(p)
			if strings.HasPrefix(strings.ToLower(p), "q=") {
				fmt.Sscanf(p[2:], "%g", &q)
			}
		}
		if q > 0 {
			return true
		}
	}
	return false
}

func main() {
	rep := kit.NewReport("C02", "exploration",
		"8 site variants (also: a Casketfile named like a precompressed sibling, a catch-all site with absolute-form request targets; static, browse, browse+servearchive, address with path prefix, a Casketfile named like an index page, an earlier site on the listener rooted elsewhere) x request targets of 1..3 segments over an 18-symbol adversarial segment alphabet (x trailing slash x doubled leading slash) x {5 queries x html/json, 9 Accept-Encoding values (with zero qualities), HEAD}; every token found in the decoded/unarchived body must belong to the file the cleaned path names, its directory index, an accepted sibling, or (archives) a non-hidden file below it; the hidden file replaced by a new inode, and given a second name by a hard link, stays hidden; redirects must start with exactly one '/'; distinct_nontrivial = outcome classes")
	kit.Init()
	kit.Log.Off.Store(true)
	base := kit.TempDir("c02")
	defer os.RemoveAll(base)
	// overlapping requests first (E2, deterministic); the sweep below serves many requests at once
	overlapPhase(rep, base)
	if rep.ViolationCount() > 0 {
		rep.Capped("the sweep of single requests was skipped: overlapping requests already differ from the same requests served alone")
		rep.Finish()
		return
	}
	root := filepath.Join(base, "root")
	tokens := map[string]string{}
	for _, f := range rootFiles {
		tokens[f] = kit.Token(f)
		content := "<html>" + tokens[f] + "</html>"
		if strings.HasSuffix(f, ".gz") {
			// a real gzip of the original's content plus its own token, so provenance is decidable after decoding
			content = string(kit.GzipBytes([]byte("<html>" + tokens[f] + "</html>")))
		}
		kit.WriteFile(root, f, content)
	}
	os.MkdirAll(filepath.Join(root, "dir2"), 0o755)
	tokens["OUTSIDE"] = kit.Token("outside")
	kit.WriteFile(base, "outside/outside.txt", tokens["OUTSIDE"])
	kit.WriteFile(base, "outside.txt", tokens["OUTSIDE"])
	maxSegs := 3
	if rep.Thorough() {
		maxSegs = 4
	}
	var targets []string
	var gen func(cur []string)
	gen = func(cur []string) {
		if len(cur) > 0 {
			t := "/" + strings.Join(cur, "/")
			targets = append(targets, t, t+"/", "/"+t, "//"+t+"/")
		}
		if len(cur) == maxSegs {
			return
		}
		for _, s := range segs {
			gen(append(cur, s))
		}
	}
	gen(nil)
	targets = append(targets, "/")
	// absolute-form request targets (a proxy-style request line): the host named there is not the site's
	for _, t := range []string{"/dirx", "/dir", "/a.txt/", "/dirx/index.html", "//dirx", "/"} {
		targets = append(targets, "http://evil.test"+t, "http://evil.test:8080"+t)
	}
	rep.Set("targets", len(targets))
	// hidden: where the Casketfile lies inside the root; pre: sites declared before the one under test
	elsewhere := fmt.Sprintf("other.test:8080 {\n\troot %s\n}\n", filepath.Join(base, "outside"))
	variants := []struct{ name, addr, body, prefix, hidden, pre string }{
		{"static", "a.test:8080", "", "", "Casketfile", ""},
		{"browse", "a.test:8080", "\tbrowse\n", "", "Casketfile", ""},
		{"browse+archive", "a.test:8080", "\tbrowse / {\n\t\tservearchive\n\t}\n", "", "Casketfile", ""},
		{"prefix+browse+archive", "a.test:8080/sub", "\tbrowse / {\n\t\tservearchive\n\t}\n", "/sub", "Casketfile", ""},
		// the configuration file has the name of an index page
		{"casketfile-named-like-an-index/browse+archive", "a.test:8080", "\tbrowse / {\n\t\tservearchive\n\t}\n", "", "dirx/index.html", ""},
		// an earlier site on the same listener whose root lies elsewhere
		{"second-site/browse+archive", "a.test:8080", "\tbrowse / {\n\t\tservearchive\n\t}\n", "", "Casketfile", elsewhere},
		// the configuration file has the name of a precompressed sibling
		{"casketfile-named-like-a-sibling/static", "a.test:8080", "", "", "a.txt.gz", ""},
		// a catch-all site: also answers absolute-form request targets that name another host
		{"catch-all/browse", ":8080", "\tbrowse\n", "", "Casketfile", ""},
	}
	queries := []string{"", "archive=zip", "archive=tar.gz", "sort=size&order=desc", "limit=1"}
	aes := []string{"gzip", "br", "zstd, gzip", "identity", "gzip;q=0", "identity, gzip;q=0", "br;q=0, gzip", "zstd;q=0.0, br;q=0", "gzip;q=0.5"}
	for _, v := range variants {
		cf := v.pre + fmt.Sprintf("%s {\n\troot %s\n%s}\n", v.addr, root, v.body)
		hidden, hiddenBase := v.hidden, path.Base(v.hidden)
		l, err := kit.Load(cf, filepath.Join(root, filepath.FromSlash(hidden)))
		if err != nil {
			rep.Broken("load: %v", err)
		}
		srv := l.Server("")
		archives := strings.Contains(v.name, "archive")
		browse := strings.Contains(v.name, "browse")
		kit.Parallel(len(targets), func(ti int) bool {
			if rep.Expired() {
				rep.Capped("deadline")
				return false
			}
			tgt := targets[ti]
			local := map[string]int64{}
			type rq struct{ method, query, ae, accept string }
			var rqs []rq
			for _, q := range queries {
				rqs = append(rqs, rq{"GET", q, "", ""}, rq{"GET", q, "", "application/json"})
			}
			for _, ae := range aes {
				rqs = append(rqs, rq{"GET", "", ae, ""})
			}
			rqs = append(rqs, rq{"HEAD", "", "", ""}, rq{"GET", "archive=zip", "gzip", ""})
			for _, q := range rqs {
				full := v.prefix + tgt
				if q.query != "" {
					full += "?" + q.query
				}
				var hdr []string
				if q.ae != "" {
					hdr = append(hdr, "Accept-Encoding: "+q.ae)
				}
				if q.accept != "" {
					hdr = append(hdr, "Accept: "+q.accept)
				}
				raw := kit.Get(q.method, full, "a.test:8080", hdr...)
				req, err := kit.Req(raw)
				if err != nil {
					local["request-rejected-by-net/http"]++
					continue
				}
				// reference: the path the request names inside the site
				p := req.URL.Path
				if v.prefix != "" {
					p = strings.TrimPrefix(req.URL.EscapedPath(), v.prefix)
					if un, err := url.PathUnescape(p); err == nil {
						p = un
					}
				}
				clean := path.Clean("/" + p)
				rec, pv, _ := kit.ServeReq(srv, req)
				rep.Eval(1)
				if pv != nil {
					rep.Violation("C02/panic", fmt.Sprintf("panic: %v", pv), c02case{Casketfile: cf, Request: raw})
					continue
				}
				// allowed tokens
				allowed := map[string]bool{}
				rel := strings.TrimPrefix(clean, "/")
				addFile := func(f string) {
					if _, ok := tokens[f]; ok && f != hidden {
						allowed[f] = true
						for _, ext := range []string{".gz", ".br", ".zst"} {
							if _, ok := tokens[f+ext]; ok && f+ext != hidden && offers(q.ae, map[string]string{".gz": "gzip", ".br": "br", ".zst": "zstd"}[ext]) {
								allowed[f+ext] = true
							}
						}
					}
				}
				addFile(rel)
				st, err := os.Stat(filepath.Join(root, rel))
				isDir := err == nil && st.IsDir()
				if isDir {
					addFile(path.Join(rel, "index.html"))
					if archives && strings.HasPrefix(q.query, "archive=") {
						for f := range tokens {
							if f != hidden && f != "OUTSIDE" && (rel == "" || strings.HasPrefix(f, rel+"/")) {
								allowed[f] = true
							}
						}
					}
				}
				// decode
				bodyB := rec.Body.Bytes()
				text := string(bodyB)
				ce := strings.Join(rec.Snap.Values("Content-Encoding"), ",")
				if ce == "gzip" {
					if dec, err := kit.Gunzip(bodyB); err == nil {
						text = string(dec)
					} else if q.method != "HEAD" && rec.Status == 200 {
						rep.Violation("C02/content-encoding-mismatch", "Content-Encoding gzip but the body is not gzip data", c02case{Casketfile: cf, Request: raw, Status: rec.Status})
					}
				}
				var found []string
				hiddenName := false
				if members, ok := kit.Unarchive([]byte(text)); ok {
					for name, content := range members {
						if strings.HasSuffix(strings.TrimPrefix(name, "/"), hidden) {
							hiddenName = true
							found = append(found, "member:"+name)
						}
						found = append(found, kit.FindTokens(content, tokens)...)
					}
				} else {
					found = kit.FindTokens(text, tokens)
					ct := rec.Snap.Get("Content-Type")
					// a listing entry for the hidden file (its name in the request path itself does not count)
					if browse && rec.Status == 200 && ((strings.HasPrefix(ct, "text/html") && strings.Contains(text, "href=\"./"+hiddenBase+"\"") && path.Dir("/"+hidden) == clean) ||
						(strings.HasPrefix(ct, "application/json") && strings.Contains(text, "\"Name\":\""+hiddenBase+"\"") && path.Dir("/"+hidden) == clean)) {
						hiddenName = true
						found = append(found, "listing-names:"+hiddenBase)
					}
				}
				var bad []string
				for _, f := range found {
					if strings.HasPrefix(f, "member:") || strings.HasPrefix(f, "listing-names:") {
						continue
					}
					if !allowed[f] {
						bad = append(bad, f)
					}
				}
				var al []string
				for a := range allowed {
					al = append(al, a)
				}
				sort.Strings(al)
				sort.Strings(found)
				mk := func() c02case {
					return c02case{cf, raw, rec.Status, rec.Snap.Get("Location"), found, al}
				}
				if hiddenName {
					where := "listing"
					if strings.HasPrefix(q.query, "archive=") {
						where = "archive"
					}
					rep.Violation("C02/hidden-file-listed/"+where, "the Casketfile's name appears in a "+where, mk())
				}
				for _, f := range bad {
					switch {
					case f == "OUTSIDE":
						rep.Violation("C02/outside-root-content", "content of a file outside the root was returned", mk())
					case f == hidden:
						where := "direct"
						if strings.HasPrefix(q.query, "archive=") {
							where = "archive"
						}
						rep.Violation("C02/hidden-file-content/"+where, "content of the hidden Casketfile was returned", mk())
					default:
						rep.Violation("C02/wrong-file-content", fmt.Sprintf("content of %s returned for a path that names %q", f, clean), mk())
					}
				}
				if rec.Status >= 300 && rec.Status < 400 {
					loc := rec.Snap.Get("Location")
					if !locOK.MatchString(loc) {
						who := "static"
						if rec.Status == 301 {
							who = "browse"
						}
						if strings.HasPrefix(tgt, "http://") {
							who += "/absolute-form-request-target"
						}
						rep.Violation("C02/redirect-leaves-origin/"+who, fmt.Sprintf("Location %q does not start with exactly one '/'", loc), mk())
					}
					local["redirect"]++
				} else if len(found) > 0 {
					if strings.HasPrefix(q.query, "archive=") && rec.Snap.Get("Content-Disposition") != "" {
						local["archive-served"]++
					} else if ce != "" {
						local["precompressed-sibling-served/"+ce]++
					} else {
						local["file-served"]++
					}
				} else if rec.Status == 200 {
					local["listing-or-empty-200"]++
				} else {
					local[fmt.Sprintf("status-%d", rec.Status)]++
				}
			}
			rep.ClassN(local)
			return true
		})
		// the hidden file is replaced the way editors and deploy scripts do it (a new file moved into place: same
		// path, another inode) while the site keeps running: it stays hidden under every spelling
		hp := filepath.Join(root, filepath.FromSlash(hidden))
		if old, err := os.ReadFile(hp); err == nil {
			tmp := hp + ".new"
			os.WriteFile(tmp, old, 0o644)
			os.Rename(tmp, hp)
			for _, tgt := range []string{"/" + hidden, "//" + hidden, "/./" + hidden, "/" + strings.ToUpper(hidden[:1]) + hidden[1:], "/" + path.Dir(hidden) + "/", "/" + path.Dir(hidden) + "/?archive=zip"} {
				raw := kit.Get("GET", v.prefix+tgt, "a.test:8080", "Accept-Encoding: gzip")
				req, err := kit.Req(raw)
				if err != nil {
					continue
				}
				rec, pv, _ := kit.ServeReq(srv, req)
				rep.Eval(1)
				text := rec.Body.String()
				if dec, err := kit.Gunzip(rec.Body.Bytes()); err == nil {
					text = string(dec)
				}
				leaked := strings.Contains(text, tokens[hidden])
				if members, ok := kit.Unarchive([]byte(text)); ok {
					for _, c := range members {
						leaked = leaked || strings.Contains(c, tokens[hidden])
					}
				}
				if pv != nil || leaked {
					rep.Violation("C02/hidden-file-content/after-the-file-was-replaced", fmt.Sprintf("GET %s returned the content of the hidden file after it had been replaced by a new file of the same name", tgt), c02case{Casketfile: cf, Request: raw, Status: rec.Status})
				}
			}
			rep.Class("hidden-file-replaced")
		}
		// an archive download whose client goes away after a few bytes, then archives of other directories: each holds the files of its
		// directory and nothing of the download before it
		if strings.Contains(v.body, "servearchive") {
			// (for the duration of this phase the root holds a file large enough that the archive does not fit one read of the copy loop)
			big := make([]byte, 300<<10)
			x := uint32(12345)
			for i := range big {
				x = x*1664525 + 1013904223
				big[i] = byte(x >> 24)
			}
			os.MkdirAll(filepath.Join(root, "dirbig"), 0o755)
			os.WriteFile(filepath.Join(root, "dirbig", "big.bin"), big, 0o644)
			for _, failAfter := range []int{1, 10, 40, 5000, 100000} {
				req, err := kit.Req(kit.Get("GET", v.prefix+"/?archive=zip", "a.test:8080"))
				if err == nil {
					rec := kit.NewRec("GET")
					rec.FailAfter = failAfter
					rec.FailDelay = 30 * time.Millisecond
					kit.ServeReqRec(srv, req, rec)
					rep.Eval(1)
					if os.Getenv("C02_DUMP") != "" { // (debugging aid)
						fmt.Printf("ABORTED variant=%s failAfter=%d status=%d body=%d\n", v.name, failAfter, rec.Status, rec.Body.Len())
					}
				}
				for _, d := range []string{"/dir/", "/dir2/", "/dir/"} { // (directories without an index page)
					raw := kit.Get("GET", v.prefix+d+"?archive=zip", "a.test:8080")
					req, err := kit.Req(raw)
					if err != nil {
						continue
					}
					rec, pv, _ := kit.ServeReq(srv, req)
					rep.Eval(1)
					members, ok := kit.Unarchive(rec.Body.Bytes())
					if os.Getenv("C02_DUMP") != "" {
						fmt.Printf("  NEXT %s status=%d body=%d archive=%v members=%d\n", d, rec.Status, rec.Body.Len(), ok, len(members))
					}
					problem := ""
					switch {
					case pv != nil:
						problem = fmt.Sprintf("panic: %v", pv)
					case !ok:
						problem = "the body is not an archive"
					default:
						for name, c := range members {
							for f, tok := range tokens {
								if strings.Contains(c, tok) && !strings.HasPrefix("/"+f, d) {
									problem = fmt.Sprintf("member %s holds content of %s", name, f)
								}
							}
						}
					}
					if problem != "" {
						rep.Violation("C02/archive-after-an-aborted-download", fmt.Sprintf("after an archive download of / that the client abandoned after %d bytes, the archive of %s: %s", failAfter, d, problem), c02case{Casketfile: cf, Request: raw, Status: rec.Status})
					}
				}
			}
			os.RemoveAll(filepath.Join(root, "dirbig"))
			rep.Class("archive-after-an-aborted-download")
		}
		// the hidden file has a second name inside the root (a hard link): it is the same file, and stays hidden under that name too
		alias := filepath.Join(root, "dir2", "second-name.txt")
		if err := os.Link(hp, alias); err == nil {
			for _, tgt := range []string{"/dir2/second-name.txt", "//dir2/second-name.txt", "/dir2/", "/dir2/?archive=zip", "/?archive=zip", "/dir2/SECOND-NAME.TXT"} {
				for _, hdrs := range [][]string{{"Accept-Encoding: gzip"}, {"Accept: application/json"}} {
					raw := kit.Get("GET", v.prefix+tgt, "a.test:8080", hdrs...)
					req, err := kit.Req(raw)
					if err != nil {
						continue
					}
					rec, pv, _ := kit.ServeReq(srv, req)
					rep.Eval(1)
					text := rec.Body.String()
					if dec, err := kit.Gunzip(rec.Body.Bytes()); err == nil {
						text = string(dec)
					}
					leaked := strings.Contains(text, tokens[hidden])
					if members, ok := kit.Unarchive([]byte(text)); ok {
						for name, c := range members {
							leaked = leaked || strings.Contains(c, tokens[hidden]) || strings.Contains(name, "second-name")
						}
					} else if strings.HasSuffix(tgt, "/") && strings.Contains(text, "second-name") {
						leaked = true // (named in a listing)
					}
					if pv != nil || leaked {
						rep.Violation("C02/hidden-file-content/under-a-second-name", fmt.Sprintf("GET %s returned or listed the hidden file through its second name (a hard link inside the root)", tgt), c02case{Casketfile: cf, Request: raw, Status: rec.Status})
					}
				}
			}
			os.Remove(alias)
			rep.Class("hidden-file-under-a-second-name")
		} else {
			rep.Broken("hard link: %v", err)
		}
		l.Close()
		rep.Sample(map[string]interface{}{"variant": v.name, "casketfile": cf, "example_targets": []string{"/dir/..%2f/Casketfile", "//dir", "/%2e%2e/outside/outside.txt?archive=zip"}})
	}
	rep.Finish()
}
