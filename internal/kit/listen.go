package kit

import (
	"os"
	"strconv"
	"syscall"
)

// ListeningFDs returns, for every TCP port, the number of descriptors of
// this process that refer to a listening socket bound to it. It asks the
// kernel about each descriptor (SO_ACCEPTCONN + getsockname) instead of
// parsing /proc/net/tcp, which grows with every TIME_WAIT socket on the host.
func ListeningFDs() map[int]int {
	out := map[int]int{}
	ents, err := os.ReadDir("/proc/self/fd")
	if err != nil {
		return out
	}
	for _, e := range ents {
		fd, err := strconv.Atoi(e.Name())
		if err != nil {
			continue
		}
		v, err := syscall.GetsockoptInt(fd, syscall.SOL_SOCKET, syscall.SO_ACCEPTCONN)
		if err != nil || v != 1 {
			continue
		}
		sa, err := syscall.Getsockname(fd)
		if err != nil {
			continue
		}
		switch a := sa.(type) {
		case *syscall.SockaddrInet4:
			out[a.Port]++
		case *syscall.SockaddrInet6:
			out[a.Port]++
		}
	}
	return out
}
