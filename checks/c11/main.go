// C11 — every directive's setup is total: error or success, never a crash.
//
// For each registered directive: name + 0..k arguments over a lexical-class
// alphabet, optionally a sub-block whose lines start with a keyword of that
// directive (vocabulary extracted from the directive's own source at run
// time) + arguments. Every configuration is validated, executed, and (if
// accepted) really started on an ephemeral loopback port; panics are
// recovered and reported, hangs end the worker under a watchdog.
package main

import (
	"bytes"
	"context"
	"encoding/json"
	"fmt"
	"go/ast"
	"go/parser"
	"go/token"
	"os"
	"os/exec"
	"path/filepath"
	"runtime"
	"sort"
	"strconv"
	"strings"
	"sync"
	"sync/atomic"
	"time"

	"github.com/tmpim/casket"
	"verif/internal/kit"
)

var argAlpha = []string{"a", "/", "0", "-1", "1", "999999999999", "1s", "-1s", "x=y", "\"\"", "*", "ex.txt", "missing.txt", "http://h", ":", "{", ".a", "htpasswd=ex.txt", "htpasswd=missing.txt"}

// vocab scans the repository for RegisterPlugin("<name>", ...) calls and
// collects, per directive, the string literals used in case clauses and
// ==/!= comparisons of the registering package (its keyword vocabulary).
func vocab(repo string) map[string][]string {
	out := map[string][]string{}
	dirOf := map[string]string{}        // directive -> directory of the registering package
	wordsOfDir := map[string][]string{} // directory -> words of the package in it
	filepath.Walk(repo, func(p string, info os.FileInfo, err error) error {
		if err != nil || !info.IsDir() {
			return nil
		}
		if strings.Contains(p, "/.git") || strings.Contains(p, "/dist") {
			return filepath.SkipDir
		}
		fset := token.NewFileSet()
		pkgs, err := parser.ParseDir(fset, p, func(fi os.FileInfo) bool { return !strings.HasSuffix(fi.Name(), "_test.go") }, 0)
		if err != nil {
			return nil
		}
		for _, pkg := range pkgs {
			var names []string
			words := map[string]bool{}
			// string constants of the package: case clauses often name keywords through them
			consts := map[string]string{}
			for _, f := range pkg.Files {
				for _, d := range f.Decls {
					gd, ok := d.(*ast.GenDecl)
					if !ok || gd.Tok != token.CONST {
						continue
					}
					for _, sp := range gd.Specs {
						vs := sp.(*ast.ValueSpec)
						for i, nm := range vs.Names {
							if i < len(vs.Values) {
								if bl, ok := vs.Values[i].(*ast.BasicLit); ok && bl.Kind == token.STRING {
									v, _ := strconv.Unquote(bl.Value)
									consts[nm.Name] = v
								}
							}
						}
					}
				}
			}
			for _, f := range pkg.Files {
				ast.Inspect(f, func(n ast.Node) bool {
					switch x := n.(type) {
					case *ast.CallExpr:
						if sel, ok := x.Fun.(*ast.SelectorExpr); ok && sel.Sel.Name == "RegisterPlugin" && len(x.Args) >= 1 {
							if bl, ok := x.Args[0].(*ast.BasicLit); ok && bl.Kind == token.STRING {
								s, _ := strconv.Unquote(bl.Value)
								names = append(names, s)
							}
							if id, ok := x.Args[0].(*ast.Ident); ok {
								if v, ok := consts[id.Name]; ok {
									names = append(names, v)
								}
							}
						}
					case *ast.CompositeLit:
						// keys of map literals (tables of supported keywords such as event names)
						if _, isMap := x.Type.(*ast.MapType); isMap && len(x.Elts) <= 12 { // (large tables are data, not keywords)
							for _, el := range x.Elts {
								if kv, ok := el.(*ast.KeyValueExpr); ok {
									if bl, ok := kv.Key.(*ast.BasicLit); ok && bl.Kind == token.STRING {
										s, _ := strconv.Unquote(bl.Value)
										words[s] = true
									}
								}
							}
						}
					case *ast.CaseClause:
						for _, e := range x.List {
							if bl, ok := e.(*ast.BasicLit); ok && bl.Kind == token.STRING {
								s, _ := strconv.Unquote(bl.Value)
								words[s] = true
							}
							if id, ok := e.(*ast.Ident); ok {
								if v, ok := consts[id.Name]; ok {
									words[v] = true
								}
							}
						}
					case *ast.BinaryExpr:
						if x.Op == token.EQL || x.Op == token.NEQ {
							for _, e := range []ast.Expr{x.X, x.Y} {
								if bl, ok := e.(*ast.BasicLit); ok && bl.Kind == token.STRING {
									s, _ := strconv.Unquote(bl.Value)
									words[s] = true
								}
							}
						}
					}
					return true
				})
			}
			var ws []string
			for w := range words {
				if w != "" && !strings.ContainsAny(w, " \n\t\"{}") && len(w) < 30 {
					ws = append(ws, w)
				}
			}
			sort.Strings(ws)
			for _, n := range names {
				out[n] = ws
				dirOf[n] = p
			}
			wordsOfDir[p] = ws
			if strings.HasSuffix(p, "caskethttp/httpserver") {
				out["<shared>"] = ws
			}
		}
		return nil
	})
	// packages below a directive's own package (onevent/hook for on) belong to its vocabulary
	for n, d := range dirOf {
		if d == repo {
			continue
		}
		have := map[string]bool{}
		for _, w := range out[n] {
			have[w] = true
		}
		for sub, ws := range wordsOfDir {
			if strings.HasPrefix(sub, d+string(filepath.Separator)) {
				for _, w := range ws {
					if !have[w] {
						have[w] = true
						out[n] = append(out[n], w)
					}
				}
			}
		}
		sort.Strings(out[n])
	}
	return out
}

type cfgCase struct {
	Casketfile string   `json:"casketfile"`
	Got        string   `json:"got"`
	Earlier    []string `json:"configurations_run_just_before_in_the_same_process,omitempty"`
}

// the last few configurations of this process (a hang may be caused by what an earlier one left behind)
var (
	recentMu sync.Mutex
	recent   []string
	curFile  *os.File // side file holding the most recent configurations of this worker
)

func curFileName(worker int) string {
	return filepath.Join(os.TempDir(), fmt.Sprintf("c11-recent-%d.json", worker))
}

// confirmCrash runs the configurations in a fresh process and reports whether that process was terminated too.
func confirmCrash(texts []string) (bool, string) {
	b, _ := json.Marshal(texts)
	f, err := os.CreateTemp("", "c11-confirm-*.json")
	if err != nil {
		return false, ""
	}
	f.Write(b)
	f.Close()
	defer os.Remove(f.Name())
	ctx, cancel := context.WithTimeout(context.Background(), 90*time.Second)
	defer cancel()
	cmd := exec.CommandContext(ctx, os.Args[0], "-tier", "quick", "-worker", "0", "-nworkers", "1")
	cmd.Env = append(os.Environ(), "C11_TEXTFILE="+f.Name())
	cmd.WaitDelay = 2 * time.Second
	out, err := cmd.CombinedOutput()
	if err == nil || ctx.Err() != nil || strings.Contains(string(out), "CONFIRM-HANG") {
		return false, ""
	}
	msg := ""
	for _, l := range strings.Split(string(out), "\n") {
		if strings.HasPrefix(l, "panic:") || strings.HasPrefix(l, "fatal error:") {
			msg = l
			break
		}
	}
	return msg != "", msg
}

// heapCap is where a shard stops because of what validations leave behind: 16 workers share the machine's memory, so each
// gets its part of 60 % of it (at most 8 GiB, at least 1 GiB).
var heapCap = func() uint64 {
	c := uint64(8 << 30)
	if b, err := os.ReadFile("/proc/meminfo"); err == nil {
		var kb uint64
		if _, err := fmt.Sscanf(string(b), "MemTotal: %d kB", &kb); err == nil && kb > 0 {
			if part := kb * 1024 * 6 / 10 / 16; part < c {
				c = part
			}
		}
	}
	if c < 1<<30 {
		c = 1 << 30
	}
	return c
}()

var (
	curStart atomic.Int64
	curText  atomic.Pointer[string]
)

func guarded(f func() error) (err error, panicV interface{}) {
	defer func() {
		if p := recover(); p != nil {
			panicV = p
		}
	}()
	return f(), nil
}

func isEnvError(err error) bool {
	s := err.Error()
	for _, w := range []string{"listen", "bind", "address already in use", "lookup", "no such host", "permission denied", "acme", "obtain", "no such file", "certificate", "pem", "is a directory", "not a directory", "dial", "missing port", "unknown port", "invalid port"} {
		if strings.Contains(strings.ToLower(s), w) {
			return true
		}
	}
	return false
}

// keyReaders are the directives whose setup looks at the key of the block it is in (found by reading: the tls directive
// judges host names). Their configurations are also validated in a block with two keys, in both orders: the block is
// accepted exactly when it is accepted for each key alone.
var keyReaders = map[string]bool{"tls": true}

func runConfig(rep *kit.Report, dirName, text string, realStart bool, local map[string]int64) {
	if keyReaders[dirName] && strings.HasPrefix(text, "localhost:0 {") && ((strings.Count(text, "\n") == 5 && len(strings.Fields(text)) <= 9) || (strings.Count(text, "\n") == 3 && len(strings.Fields(text)) <= 5)) {
		// (lines of at most one argument, and sub-blocks of one line with at most one head argument and one argument: every
		// validation leaves a certificate cache behind, which bounds how many a shard can make)
		// (validation only: loading a block with a public name would try to obtain a certificate for it)
		rest := strings.TrimPrefix(text, "localhost:0 {")
		verdict := func(keys string) (ok bool, what string) {
			t := keys + " {" + rest
			curText.Store(&t)
			curStart.Store(time.Now().UnixNano())
			defer curStart.Store(0)
			rep.Eval(1)
			input := casket.CasketfileInput{Contents: []byte(t), Filepath: "Casketfile", ServerTypeName: "http"}
			err, pv := guarded(func() error { return casket.ValidateAndExecuteDirectives(input, nil, true) })
			casket.VerifPurgeEventHooks()
			if pv != nil {
				rep.Violation("C11/panic/validate/"+dirName, fmt.Sprintf("validation panicked: %v", pv), cfgCase{t, fmt.Sprint(pv), nil})
				return false, "panic"
			}
			return err == nil, fmt.Sprint(err)
		}
		okA, whatA := verdict("localhost:0")
		okB, whatB := verdict("sub.example.com:0")
		for _, keys := range []string{"sub.example.com:0, localhost:0", "localhost:0, sub.example.com:0"} {
			ok, what := verdict(keys)
			if ok != (okA && okB) {
				rep.Violation("C11/validation-of-a-block-with-two-keys-differs-from-its-keys-taken-alone/"+dirName, fmt.Sprintf("keys %q: validate says %s; alone: localhost:0 -> %s, sub.example.com:0 -> %s", keys, what, whatA, whatB), cfgCase{keys + " {" + rest, what, nil})
			}
		}
		local["two-key blocks validated"]++
	}
	rep.Eval(1)
	curText.Store(&text)
	recentMu.Lock()
	recent = append(recent, text)
	if len(recent) > 6 {
		recent = recent[1:]
	}
	if curFile != nil {
		// what a parent needs to know if this process is terminated (a panic in a goroutine cannot be recovered)
		b, _ := json.Marshal(recent)
		curFile.WriteAt(append(b, '\n'), 0)
	}
	recentMu.Unlock()
	curStart.Store(time.Now().UnixNano())
	defer func() {
		if f := os.Getenv("C11_SLOWLOG"); f != "" { // (debugging aid)
			if d := time.Duration(time.Now().UnixNano() - curStart.Load()); d > 100*time.Millisecond {
				if fh, err := os.OpenFile(f, os.O_APPEND|os.O_CREATE|os.O_WRONLY, 0o644); err == nil {
					fmt.Fprintf(fh, "%v %q\n", d, text)
					fh.Close()
				}
			}
		}
		curStart.Store(0)
		casket.VerifPurgeEventHooks()
	}()
	input := casket.CasketfileInput{Contents: []byte(text), Filepath: "Casketfile", ServerTypeName: "http"}
	vErr, vPanic := guarded(func() error { return casket.ValidateAndExecuteDirectives(input, nil, true) })
	if vPanic != nil {
		rep.Violation("C11/panic/validate/"+dirName, fmt.Sprintf("validation panicked: %v", vPanic), cfgCase{text, fmt.Sprint(vPanic), nil})
		local["panic"]++
		return
	}
	var inst *casket.Instance
	eErr, ePanic := guarded(func() error {
		var err error
		inst, _, err = casket.VerifLoad(input)
		return err
	})
	if inst != nil {
		guarded(func() error { inst.ShutdownCallbacks(); return nil })
	}
	if ePanic != nil {
		rep.Violation("C11/panic/execute/"+dirName, fmt.Sprintf("loading panicked: %v", ePanic), cfgCase{text, fmt.Sprint(ePanic), nil})
		local["panic"]++
		return
	}
	if (vErr == nil) != (eErr == nil) {
		e := eErr
		if e == nil {
			e = vErr
		}
		if !isEnvError(e) {
			rep.Violation("C11/validate-vs-load-disagree/"+dirName, fmt.Sprintf("validate says %v, load says %v", vErr, eErr), cfgCase{text, fmt.Sprintf("validate=%v load=%v", vErr, eErr), nil})
		}
		local["validate/load differ (environment)"]++
		return
	}
	if vErr != nil {
		local["rejected"]++
		return
	}
	local["accepted"]++
	if !realStart {
		return
	}
	var started *casket.Instance
	sErr, sPanic := guarded(func() error {
		var err error
		started, err = casket.Start(input)
		return err
	})
	if sPanic != nil {
		rep.Violation("C11/panic/start/"+dirName, fmt.Sprintf("Start panicked: %v", sPanic), cfgCase{text, fmt.Sprint(sPanic), nil})
		local["panic"]++
		return
	}
	if sErr != nil {
		if !isEnvError(sErr) {
			rep.Violation("C11/validate-vs-start-disagree/"+dirName, fmt.Sprintf("validate accepted, Start failed: %v", sErr), cfgCase{text, sErr.Error(), nil})
		}
		local["start failed (environment)"]++
	} else {
		local["started"]++
	}
	if started != nil {
		guarded(func() error {
			started.ShutdownCallbacks()
			started.Stop()
			return nil
		})
	}
}

// confirmHang runs the configurations in a fresh process and reports whether that process failed to finish in 90 s.
func confirmHang(texts []string, scratch string) bool {
	b, _ := json.Marshal(texts)
	f, err := os.CreateTemp("", "c11-confirm-*.json")
	if err != nil {
		return false
	}
	f.Write(b)
	f.Close()
	defer os.Remove(f.Name())
	ctx, cancel := context.WithTimeout(context.Background(), 90*time.Second)
	defer cancel()
	cmd := exec.CommandContext(ctx, os.Args[0], "-tier", "quick", "-worker", "0", "-nworkers", "1")
	cmd.Env = append(os.Environ(), "C11_TEXTFILE="+f.Name())
	cmd.WaitDelay = 2 * time.Second
	out, _ := cmd.CombinedOutput()
	if strings.Contains(string(out), "CONFIRM-DONE") {
		return false
	}
	return ctx.Err() != nil || strings.Contains(string(out), "CONFIRM-HANG")
}

func main() {
	rep := kit.NewReport("C11", "exploration",
		"every registered http directive x argument lists of length 0..3 (thorough 4) over an 18-value lexical-class alphabet, plus sub-blocks of one (thorough two) line(s) starting with each keyword of the directive's own vocabulary (string literals of its case clauses and comparisons, extracted from the source at run time) x 0..2 (3) arguments, after 0..1 (2) head arguments; each configuration validated, loaded and, when accepted, really started on an ephemeral port (for the directive that reads its block's key, tls, also validated in a block with two keys, in both orders, against the verdicts for each key alone); distinct_nontrivial = outcome classes per directive")
	if !rep.IsWorker() {
		rep.Assume("commands named by on/startup/shutdown are drawn from the same harmless alphabet; files are relative to a scratch working directory")
		// (validation leaves a certificate cache with its maintenance goroutine behind for every configuration - harmless for
		// `casket -validate`, which exits, but it adds up here: many short-lived shards keep each worker process small)
		rep.MaxParallel = 16
		shards := 256
		if rep.Thorough() {
			shards = 2048
		}
		rep.RunWorkers(shards)
		// a worker that was terminated (a panic in a goroutine started by a directive ends the process) left its most
		// recent configurations behind: the termination is a finding if they terminate two fresh processes as well
		for _, k := range rep.FailedWorkers {
			b, err := os.ReadFile(curFileName(k))
			if i := bytes.IndexByte(b, '\n'); err == nil && i > 0 {
				var texts []string
				if json.Unmarshal(b[:i], &texts) == nil && len(texts) > 0 {
					ok1, msg := confirmCrash(texts)
					ok2, _ := confirmCrash(texts)
					if ok1 && ok2 {
						// the shortest suffix that still terminates the process names the configuration
						culprit := texts
						for len(culprit) > 1 {
							if ok, _ := confirmCrash(culprit[1:]); !ok {
								break
							}
							culprit = culprit[1:]
						}
						rep.Violation("C11/process-terminated", "validating/loading/starting terminated the whole process: "+msg, cfgCase{culprit[0], "process terminated: " + msg, culprit[1:]})
					}
				}
			}
		}
		rep.Finish()
	}
	runtime.GOMAXPROCS(2) // (one configuration at a time per shard; 16 shards run side by side)
	kit.Init()
	repo := os.Getenv("VERIF_REPO")
	if repo == "" {
		repo = "/repo"
	}
	voc := vocab(repo)
	scratch := kit.TempDir("c11")
	defer os.RemoveAll(scratch)
	os.WriteFile(filepath.Join(scratch, "ex.txt"), []byte("u:{SHA}W6ph5Mm5Pz8GgiULbPgzG37mj9g=\n"), 0o644)
	os.Chdir(scratch)
	os.Setenv("CASKETPATH", filepath.Join(scratch, "assets"))
	if os.Getenv("C11_TEXTFILE") == "" {
		curFile, _ = os.OpenFile(curFileName(*kit.FlagWorker), os.O_CREATE|os.O_RDWR|os.O_TRUNC, 0o644)
	}
	// watchdog: a configuration that does not finish in 20 s, or during which the heap grows by 2 GB, ends the worker
	go func() {
		var lastSt int64
		var heap0 uint64
		for {
			time.Sleep(250 * time.Millisecond)
			st := curStart.Load()
			var m runtime.MemStats
			runtime.ReadMemStats(&m)
			if st != lastSt {
				lastSt, heap0 = st, m.HeapAlloc
			}
			if st != 0 && (time.Now().UnixNano()-st > int64(20*time.Second) || (m.HeapAlloc > heap0 && m.HeapAlloc-heap0 > 2<<30)) {
				t := *curText.Load()
				if os.Getenv("C11_TEXTFILE") != "" {
					// this is a confirmation run: say so and end (its parent decides)
					fmt.Printf("CONFIRM-HANG %q\n", t)
					os.Exit(3)
				}
				why := fmt.Sprintf("running for %.1f s, heap grew by %d MB meanwhile", float64(time.Now().UnixNano()-st)/1e9, (int64(m.HeapAlloc)-int64(heap0))>>20)
				recentMu.Lock()
				all := append([]string{}, recent...)
				recentMu.Unlock()
				earlier := all
				if len(earlier) > 0 {
					earlier = earlier[:len(earlier)-1]
				}
				// a stall of this process is only believed if the same configurations, in the same order, also
				// fail to finish within 90 s in a fresh process, twice (the machine may simply be overloaded)
				confirmed := 0
				for try := 0; try < 2; try++ {
					if !confirmHang(all, scratch) {
						break
					}
					confirmed++
				}
				if confirmed == 2 {
					rep.Violation("C11/hang", "validating/loading/starting did not finish within 20 s (or kept allocating), and not within 90 s in two fresh processes either: "+why, cfgCase{t, "hang: " + why, earlier})
				} else {
					rep.Class("stall-not-reproduced-in-a-fresh-process")
				}
				rep.Capped("worker stopped after a hang")
				os.Chdir("/")
				os.RemoveAll(scratch)
				rep.Finish()
			}
			if m.HeapAlloc > heapCap {
				// accumulated over many configurations (see the note at RunWorkers): not a finding, but this shard stops here
				rep.Capped(fmt.Sprintf("shard stopped: heap %d MB accumulated over %d configurations", m.HeapAlloc>>20, rep.Evals()))
				os.Chdir("/")
				os.RemoveAll(scratch)
				rep.Finish()
			}
		}
	}()
	var dirs []string
	for _, d := range casket.ValidDirectives("http") {
		if _, err := casket.DirectiveAction("http", d); err == nil {
			dirs = append(dirs, d)
		}
	}
	if len(dirs) < 25 {
		rep.Broken("only %d registered directives found", len(dirs))
	}
	rep.Set("directives", dirs)
	maxArgs, blockLines, blockArgs, lineArgs := 3, 1, 1, 2
	if rep.Thorough() {
		maxArgs, blockLines, blockArgs, lineArgs = 4, 2, 2, 3
	}
	var argLists [][]string
	var gen func(cur []string, n int)
	gen = func(cur []string, n int) {
		argLists = append(argLists, append([]string{}, cur...))
		if len(cur) == n {
			return
		}
		for _, a := range argAlpha {
			gen(append(cur, a), n)
		}
	}
	gen(nil, maxArgs)
	var shortLists [][]string
	for _, l := range argLists {
		if len(l) <= lineArgs {
			shortLists = append(shortLists, l)
		}
	}
	if f := os.Getenv("C11_TEXTFILE"); f != "" {
		// confirmation run (also a debugging aid): the listed configurations, in order, in this fresh process
		b, _ := os.ReadFile(f)
		var texts []string
		if json.Unmarshal(b, &texts) != nil {
			texts = []string{string(b)}
		}
		local := map[string]int64{}
		t0 := time.Now()
		for _, t := range texts {
			runConfig(rep, "confirm", t, true, local)
		}
		time.Sleep(400 * time.Millisecond) // goroutines started by the directives get their chance to fail
		fmt.Printf("CONFIRM-DONE %v %v\n", local, time.Since(t0))
		os.Exit(0)
	}
	item := 0
	for _, d := range dirs {
		if only := os.Getenv("C11_DIRS"); only != "" && !strings.Contains(","+only+",", ","+d+",") {
			continue // (debugging aid)
		}
		kws := voc[d]
		if d == "startup" || d == "shutdown" {
			kws = voc["on"]
		}
		rep.Set("vocab_"+d, len(kws))
		if _, ok := voc[d]; !ok && d != "startup" && d != "shutdown" {
			rep.Broken("no keyword vocabulary found for directive %q (RegisterPlugin call not recognised)", d)
		}
		// no block
		for chunk := 0; chunk < len(argLists); chunk += 64 {
			item++
			if !rep.Mine(item) {
				continue
			}
			if rep.Expired() {
				rep.Capped("deadline")
				break
			}
			local := map[string]int64{}
			end := chunk + 64
			if end > len(argLists) {
				end = len(argLists)
			}
			for _, al := range argLists[chunk:end] {
				text := fmt.Sprintf("localhost:0 {\n\t%s %s\n}\n", d, strings.Join(al, " "))
				runConfig(rep, d, text, !rep.Thorough() || len(al) <= 2, local)
			}
			out := map[string]int64{}
			for k, v := range local {
				out[d+": "+k] = v
			}
			rep.ClassN(out)
		}
		// no block, first argument one of the directive's own keywords (event names, policies, modes ...)
		for _, kw := range kws {
			item++
			if !rep.Mine(item) {
				continue
			}
			if rep.Expired() {
				rep.Capped("deadline")
				break
			}
			local := map[string]int64{}
			for _, al := range shortLists {
				text := fmt.Sprintf("localhost:0 {\n\t%s %s %s\n}\n", d, kw, strings.Join(al, " "))
				runConfig(rep, d, text, len(al) <= 1, local) // (a real start costs milliseconds: only for the shorter lines)
				// the same line twice in one site
				if len(al) <= 1 {
					text = fmt.Sprintf("localhost:0 {\n\t%s %s %s\n\t%s %s %s\n}\n", d, kw, strings.Join(al, " "), d, kw, strings.Join(al, " "))
					runConfig(rep, d, text, len(al) == 0, local)
				}
			}
			out := map[string]int64{}
			for k, v := range local {
				out[d+" <keyword> ...: "+k] = v
			}
			rep.ClassN(out)
		}
		// with block: head args of length <= 1 (thorough 2), lines = keyword + short arg list
		var heads [][]string
		for _, l := range argLists {
			if len(l) <= blockArgs {
				heads = append(heads, l)
			}
		}
		// plus the two shortest longer argument lists that the directive accepts without a block (proxy / a,
		// redir a /, basicauth a a a ...): most sub-directives are only read when the head is well-formed
		acceptedHead := map[string]bool{}
		for _, l := range argLists {
			if len(l) <= blockArgs || len(l) > 3 {
				continue
			}
			text := fmt.Sprintf("localhost:0 {\n\t%s %s\n}\n", d, strings.Join(l, " "))
			input := casket.CasketfileInput{Contents: []byte(text), Filepath: "Casketfile", ServerTypeName: "http"}
			if err, pv := guarded(func() error { return casket.ValidateAndExecuteDirectives(input, nil, true) }); err == nil && pv == nil {
				heads = append(heads, l)
				acceptedHead[strings.Join(l, " ")] = true
				if len(acceptedHead) == 2 {
					break
				}
			}
			casket.VerifPurgeEventHooks()
		}
		var lines []string
		lines = append(lines, "") // empty block
		for _, kw := range append([]string{"a"}, kws...) {
			for _, al := range shortLists {
				lines = append(lines, strings.TrimSpace(kw+" "+strings.Join(al, " ")))
			}
		}
		// keywords of helpers shared by several directives (log roller, if-conditions: package httpserver)
		inOwn := map[string]bool{}
		for _, kw := range kws {
			inOwn[kw] = true
		}
		for _, kw := range voc["<shared>"] {
			if inOwn[kw] {
				continue
			}
			for _, al := range shortLists {
				if len(al) <= 1 {
					lines = append(lines, strings.TrimSpace(kw+" "+strings.Join(al, " ")))
				}
			}
		}
		// stray brace tokens inside a block line (the parser counts braces per token, the directives per line)
		for _, kw := range append([]string{"a"}, kws...) {
			lines = append(lines, kw+" } "+kw, "} "+kw, kw+" {", "{ "+kw, kw+" }", kw+" { }")
		}
		// second lines of two-line blocks: each own keyword with no argument, "a", "/", an empty string or "0"
		var second []string
		for _, kw := range kws {
			second = append(second, kw, kw+" a", kw+" /", kw+" \"\"", kw+" 0")
		}
		for hi, h := range heads {
			if rep.Expired() {
				rep.Capped("deadline")
				break
			}
			local := map[string]int64{}
			for li, l1 := range lines {
				// (one work item per eight first lines of a head: an item is what a shard takes as a whole)
				if li%8 == 0 {
					item++
				}
				if !rep.Mine(item) {
					continue
				}
				if rep.Expired() {
					rep.Capped("deadline (inside the blocks of one directive)")
					break
				}
				l2s := []string{""}
				if blockLines == 2 && l1 != "" && hi%6 == 0 {
					l2s = lines[:min(len(lines), 40)]
				} else if l1 != "" && len(h) == 0 || (len(h) == 1 && h[0] == "/") || acceptedHead[strings.Join(h, " ")] {
					// quick tier: two-line blocks with a first line of at most one argument
					if len(strings.Fields(l1)) <= 2 && inOwn[strings.Fields(l1 + " x")[0]] {
						l2s = append([]string{""}, second...)
					}
				}
				for _, l2 := range l2s {
					body := ""
					if l1 != "" {
						body += "\t\t" + l1 + "\n"
					}
					if l2 != "" {
						body += "\t\t" + l2 + "\n"
					}
					text := fmt.Sprintf("localhost:0 {\n\t%s %s {\n%s\t}\n}\n", d, strings.Join(h, " "), body)
					runConfig(rep, d, text, !rep.Thorough(), local)
					if strings.ContainsAny(body, "{}") {
						// a stray brace changes what closes what: also without the block's own closing line, and with one more
						runConfig(rep, d, fmt.Sprintf("localhost:0 {\n\t%s %s {\n%s}\n", d, strings.Join(h, " "), body), false, local)
						runConfig(rep, d, fmt.Sprintf("localhost:0 {\n\t%s %s {\n%s\t}\n\t}\n}\n", d, strings.Join(h, " "), body), false, local)
					}
				}
			}
			out := map[string]int64{}
			for k, v := range local {
				out[d+" {block}: "+k] = v
			}
			rep.ClassN(out)
		}
		if d == "gzip" && rep.Mine(1) {
			rep.Sample(map[string]interface{}{"casketfile": "localhost:0 {\n\tgzip {\n\t\tlevel -1\n\t}\n}\n", "vocabulary": kws})
		}
	}
	os.Chdir("/")
	rep.Finish()
}
