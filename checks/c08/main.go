// C08 — a failed load or reload leaves nothing behind.
//
// Every history (sequence of validate / Instance.Restart / real SIGUSR1
// attempts with failing and valid configurations, followed by a valid final
// configuration) runs in a child process of its own, because the state under
// test is process-global. The child checks after every failed attempt that
// the listening sockets, the running site and the event-hook registry are
// unchanged; the parent compares the final configuration's behaviour with a
// fresh process.
package main

import (
	"encoding/json"
	"flag"
	"fmt"
	"io"
	"net"
	"net/http"
	"os"
	"os/exec"
	"path/filepath"
	"sort"
	"strings"
	"sync"
	"sync/atomic"
	"syscall"
	"time"

	"github.com/tmpim/casket"
	"github.com/tmpim/casket/caskethttp/httpserver"
	"verif/internal/kit"
)

type attempt struct {
	Kind   string `json:"kind"`   // validate | restart | sigusr1
	Config string `json:"config"` // name of a configuration
}

type history struct {
	Attempts []attempt `json:"attempts"`
	Final    string    `json:"final"`
}

type stepResult struct {
	Attempt  attempt  `json:"attempt"`
	Accepted bool     `json:"accepted"`
	Err      string   `json:"error,omitempty"`
	Problems []string `json:"problems,omitempty"`
	Ms       int64    `json:"ms"`
}

type childResult struct {
	Steps    []stepResult `json:"steps"`
	FinalOK  bool         `json:"final_loaded"`
	FinalErr string       `json:"final_error,omitempty"`
	FinalMs  int64        `json:"final_ms"`
	Battery  []string     `json:"battery"`
	Problems []string     `json:"problems,omitempty"`
}

var flagHistory = flag.String("history", "", "run one history (child mode)")
var flagPortBase = flag.Int("portbase", 0, "first of 4 ports reserved for this child (0 = probe for free ports)")

// ---------------- child ----------------

var (
	curMu   sync.Mutex
	curText string
)

type env struct {
	dir           string
	p0, p1, pbusy int
	p3            int // free for TCP; its UDP side is taken when the history uses F12
	busy          net.Listener
}

func freePort() int {
	l, err := net.Listen("tcp", "127.0.0.1:0")
	if err != nil {
		panic(err)
	}
	defer l.Close()
	return l.Addr().(*net.TCPAddr).Port
}

// configs returns the text of the named configuration. Every configuration
// keeps a site on 127.0.0.1:p0 with a marker header naming the configuration.
func (e *env) config(name string) string {
	site := func(marker, extra string) string {
		return fmt.Sprintf("127.0.0.1:%d {\n\theader / X-V %s\n\tstatus 204 /ok\n\troot %s\n%s}\n", e.p0, marker, filepath.Join(e.dir, "root"), extra)
	}
	switch name {
	case "base":
		return site("base", "")
	// ---- valid configurations that use each piece of process-global state ----
	case "V1-htpasswd":
		return site("V1", "\tbasicauth /priv u htpasswd=htpasswd\n") // (relative to the site root)
	case "V2-rolled-log":
		return site("V2", "\tlog / "+filepath.Join(e.dir, "access.log")+" \"{status} {uri}\" {\n\t\trotate_size 1\n\t}\n")
	case "V3-on":
		return site("V3", "\ton startup /bin/true\n")
	case "V5-htpasswd-late":
		return site("V5", "\tbasicauth /priv u htpasswd=htpasswd-late\n") // (the file that F13 finds incomplete)
	case "V4-two-listeners":
		return site("V4", "") + fmt.Sprintf("127.0.0.1:%d {\n\theader / X-V V4b\n\tstatus 204 /ok\n}\n", e.p1)
	// ---- failing configurations, one per kind and stage of failure ----
	case "F1-syntax":
		return site("F1", "") + "}\n{\n"
	case "F2-unknown-directive":
		return site("F2", "\tgzipp\n")
	case "F3-htpasswd-missing":
		return site("F3", "\tbasicauth /priv u htpasswd=no-such-htpasswd\n")
	case "F3b-htpasswd-malformed":
		return site("F3b", "\tbasicauth /priv u htpasswd=htpasswd-bad\n")
	case "F4-log-bad-roller":
		return site("F4", "\tlog / "+filepath.Join(e.dir, "access.log")+" {\n\t\trotate_size x\n\t}\n")
	case "F5-proxy-bad-second":
		return site("F5", "\tproxy /a http://127.0.0.1:1 {\n\t\thealth_check /h\n\t\thealth_check_interval 50ms\n\t}\n\tproxy /b http://127.0.0.1:1 {\n\t\tpolicy no-such-policy\n\t}\n")
	case "F6-tls-missing-cert":
		return site("F6", "") + fmt.Sprintf("127.0.0.1:%d {\n\ttls %s %s\n}\n", e.p1, filepath.Join(e.dir, "missing.crt"), filepath.Join(e.dir, "missing.key"))
	case "F7-on-after-valid-on":
		return site("F7", "\ton startup /bin/true\n\ton no-such-event /bin/true\n")
	case "F8-missing-import":
		return site("F8", "\timport "+filepath.Join(e.dir, "no-such-file")+"\n")
	case "F9-port-in-use":
		return site("F9", "") + fmt.Sprintf("127.0.0.1:%d {\n\tstatus 204 /ok\n}\n127.0.0.1:%d {\n\tstatus 204 /ok\n}\n", e.p1, e.pbusy)
	case "F10-startup-callback-fails":
		return site("F10", "\tlog / "+filepath.Join(e.dir, "afile", "sub", "access.log")+"\n")
	case "F13-htpasswd-user-missing":
		// the password file lacks the user; the operator adds the user after the failed attempt (see child)
		return site("F13", "\tbasicauth /priv u htpasswd=htpasswd-late\n")
	case "F14-casketfile-unreadable":
		return loaderFails // (only by SIGUSR1: the signal handler asks the loader for the configuration)
	case "F12-udp-port-in-use":
		// (with QUIC on every server also opens a UDP socket: the TCP listener of the second site is open when that fails)
		return site("F12", "") + fmt.Sprintf("127.0.0.1:%d {\n\tstatus 204 /ok\n}\n", e.p3)
	case "F11-late-setup-error-after-log-and-on":
		return site("F11", "\ton startup /bin/true\n\tlog / "+filepath.Join(e.dir, "access.log")+" \"{status}\" {\n\t\trotate_size 1\n\t}\n\tproxy / {\n\t}\n")
	}
	panic("unknown config " + name)
}

// listenInodes lists the listening TCP sockets of the process as "port x descriptors".
func listenInodes() []string {
	var out []string
	for port := range kit.ListeningFDs() {
		out = append(out, fmt.Sprint(port))
	}
	sort.Strings(out)
	return out
}

func listenFDCount() int {
	n := 0
	for _, c := range kit.ListeningFDs() {
		n += c
	}
	return n
}

func hooks() string {
	h := append([]string{}, casket.ListPlugins()["event_hooks"]...)
	// the names of `on` hooks embed a random id: compare their number and kind
	for i := range h {
		if strings.HasPrefix(h[i], "on-") {
			h[i] = "on-<id>"
		}
	}
	sort.Strings(h)
	return strings.Join(h, ",")
}

var client = &http.Client{Timeout: 10 * time.Second, Transport: &http.Transport{DisableKeepAlives: true}, CheckRedirect: func(*http.Request, []*http.Request) error { return http.ErrUseLastResponse }}

func get(port int, path, auth string) string {
	req, _ := http.NewRequest("GET", fmt.Sprintf("http://127.0.0.1:%d%s", port, path), nil)
	if auth != "" {
		req.SetBasicAuth("u", auth)
	}
	resp, err := client.Do(req)
	if err != nil {
		return "transport error: " + err.Error()[strings.LastIndex(err.Error(), ":")+1:]
	}
	defer resp.Body.Close()
	b, _ := io.ReadAll(resp.Body)
	if len(b) > 40 {
		b = b[:40]
	}
	return fmt.Sprintf("%d X-V=%s %q", resp.StatusCode, resp.Header.Get("X-V"), b)
}

func child(h history) {
	kit.Init()
	httpserver.GracefulTimeout = 200 * time.Millisecond
	dir := kit.TempDir("c08child")
	defer os.RemoveAll(dir)
	e := &env{dir: dir}
	if *flagPortBase > 0 {
		e.p0, e.p1 = *flagPortBase, *flagPortBase+1
	} else {
		e.p0, e.p1 = freePort(), freePort()
	}
	kit.WriteFile(dir, "root/index.html", "INDEX")
	kit.WriteFile(dir, "root/priv/p.txt", "PRIVATE")
	kit.WriteFile(dir, "root/htpasswd", "u:{SHA}W6ph5Mm5Pz8GgiULbPgzG37mj9g=\n") // password: password
	kit.WriteFile(dir, "root/htpasswd-bad", "this line has no colon\n")
	// htpasswd-late lacks user u exactly during an F13 attempt (a botched edit); the operator completes it again afterwards
	lateComplete := "other:{SHA}W6ph5Mm5Pz8GgiULbPgzG37mj9g=\nu:{SHA}W6ph5Mm5Pz8GgiULbPgzG37mj9g=\n"
	kit.WriteFile(dir, "root/htpasswd-late", lateComplete)
	kit.WriteFile(dir, "afile", "a regular file\n")
	busyAddr := "127.0.0.1:0"
	if *flagPortBase > 0 {
		busyAddr = fmt.Sprintf("127.0.0.1:%d", *flagPortBase+2)
	}
	busy, err := net.Listen("tcp", busyAddr)
	if err != nil {
		panic(err)
	}
	e.busy, e.pbusy = busy, busy.Addr().(*net.TCPAddr).Port
	usesF12 := false
	for _, a := range h.Attempts {
		usesF12 = usesF12 || strings.HasPrefix(a.Config, "F12-")
	}
	if usesF12 {
		e.p3 = freePort()
		if *flagPortBase > 0 {
			e.p3 = *flagPortBase + 3
		}
		httpserver.QUIC = true
		udp, err := net.ListenPacket("udp", fmt.Sprintf("127.0.0.1:%d", e.p3))
		if err != nil {
			panic(err)
		}
		defer udp.Close()
	}
	os.Chdir(dir)
	res := childResult{}
	casket.RegisterCasketfileLoader("verif", casket.LoaderFunc(func(serverType string) (casket.Input, error) {
		curMu.Lock()
		defer curMu.Unlock()
		if curText == loaderFails {
			return nil, fmt.Errorf("Casketfile cannot be read (injected)") // (the file was deleted or is unreadable)
		}
		return casket.CasketfileInput{Contents: []byte(curText), Filepath: filepath.Join(dir, "Casketfile"), ServerTypeName: serverType}, nil
	}))
	setCur := func(t string) {
		curMu.Lock()
		curText = t
		curMu.Unlock()
	}
	setCur(e.config("base"))
	input, err := casket.LoadCasketfile("http")
	if err != nil {
		panic(err)
	}
	inst, err := casket.Start(input)
	if err != nil {
		panic(fmt.Sprintf("base start: %v", err))
	}
	casket.TrapSignals()
	time.Sleep(20 * time.Millisecond) // let the signal goroutines subscribe
	running := "base"
	marker := func(cfg string) string { return strings.SplitN(cfg, "-", 2)[0] }
	doAttempt := func(a attempt) (accepted bool, errText string) {
		text := e.config(a.Config)
		in := casket.CasketfileInput{Contents: []byte(text), Filepath: filepath.Join(dir, "Casketfile"), ServerTypeName: "http"}
		switch a.Kind {
		case "validate":
			err := casket.ValidateAndExecuteDirectives(in, nil, true)
			if err != nil {
				return false, err.Error()
			}
			return true, ""
		case "restart":
			ni, err := inst.Restart(in)
			if err != nil {
				return false, err.Error()
			}
			inst = ni
			return true, ""
		case "sigusr1":
			setCur(text)
			mark := kit.Log.Mark()
			syscall.Kill(os.Getpid(), syscall.SIGUSR1)
			deadline := time.Now().Add(60 * time.Second)
			for time.Now().Before(deadline) {
				for _, l := range kit.Log.Since(mark) {
					if strings.Contains(l, "Reloading complete") {
						insts := casket.Instances()
						inst = insts[len(insts)-1]
						return true, ""
					}
					if strings.Contains(l, "[ERROR] SIGUSR1") {
						return false, strings.TrimSpace(l)
					}
				}
				time.Sleep(2 * time.Millisecond)
			}
			return false, "HANG: SIGUSR1 reload did not finish in 60 s"
		}
		panic("kind")
	}
	for _, a := range h.Attempts {
		if strings.HasPrefix(a.Config, "F13-") {
			kit.WriteFile(dir, "root/htpasswd-late", "other:{SHA}W6ph5Mm5Pz8GgiULbPgzG37mj9g=\n") // the botched edit
		}
		preListen, preFDs, preHooks := listenInodes(), listenFDCount(), hooks()
		done := make(chan stepResult, 1)
		go func() {
			t0 := time.Now()
			ok, errText := doAttempt(a)
			done <- stepResult{Attempt: a, Accepted: ok, Err: errText, Ms: time.Since(t0).Milliseconds()}
		}()
		var st stepResult
		select {
		case st = <-done:
		case <-time.After(90 * time.Second):
			st = stepResult{Attempt: a, Err: "HANG: attempt did not return in 90 s", Ms: 90000}
			res.Steps = append(res.Steps, st)
			res.Problems = append(res.Problems, "hang")
			out, _ := json.Marshal(res)
			fmt.Printf("\nCHILD %s\n", out)
			os.Exit(0)
		}
		if st.Accepted && a.Kind != "validate" {
			running = a.Config
		}
		if strings.HasPrefix(a.Config, "F13-") {
			kit.WriteFile(dir, "root/htpasswd-late", lateComplete) // the operator's correction
		}
		if !st.Accepted || a.Kind == "validate" {
			time.Sleep(5 * time.Millisecond)
			if post := listenInodes(); strings.Join(post, " ") != strings.Join(preListen, " ") {
				st.Problems = append(st.Problems, fmt.Sprintf("listening sockets changed: before %v after %v", preListen, post))
			} else if n := listenFDCount(); n != preFDs {
				st.Problems = append(st.Problems, fmt.Sprintf("descriptors of listening sockets: %d before, %d after", preFDs, n))
			}
			if a.Kind == "sigusr1" || a.Kind == "restart" { // a failed reload, by signal or through Instance.Restart (validation alone is not a reload)
				if post := hooks(); post != preHooks {
					st.Problems = append(st.Problems, fmt.Sprintf("event hooks changed: before [%s] after [%s]", preHooks, post))
				}
			}
		}
		if n := len(casket.Instances()); n != 1 {
			st.Problems = append(st.Problems, fmt.Sprintf("instance list holds %d instances after the attempt, exactly one is running", n))
		}
		want := marker(running)
		if got := get(e.p0, "/ok", ""); !strings.Contains(got, "X-V="+want+" ") {
			st.Problems = append(st.Problems, fmt.Sprintf("running site (%s) answers %s", running, got))
		}
		if running == "V4-two-listeners" {
			if got := get(e.p1, "/ok", ""); !strings.Contains(got, "X-V=V4b ") {
				st.Problems = append(st.Problems, "second listener of the running configuration answers "+got)
			}
		}
		res.Steps = append(res.Steps, st)
	}
	// final valid configuration
	fin := make(chan error, 1)
	t0 := time.Now()
	go func() {
		_, err := inst.Restart(casket.CasketfileInput{Contents: []byte(e.config(h.Final)), Filepath: filepath.Join(dir, "Casketfile"), ServerTypeName: "http"})
		fin <- err
	}()
	select {
	case err := <-fin:
		res.FinalMs = time.Since(t0).Milliseconds()
		if err != nil {
			res.FinalErr = err.Error()
		} else {
			res.FinalOK = true
			lb, _ := os.ReadFile(filepath.Join(dir, "access.log"))
			logBefore := strings.Count(string(lb), "\n")
			pw := "password"
			res.Battery = []string{get(e.p0, "/ok", ""), get(e.p0, "/index.html", ""), get(e.p0, "/priv/p.txt", ""), get(e.p0, "/priv/p.txt", pw), get(e.p0, "/priv/p.txt", "wrong"), get(e.p0, "/missing", "")}
			if h.Final == "V4-two-listeners" {
				res.Battery = append(res.Battery, get(e.p1, "/ok", ""))
			} else {
				res.Battery = append(res.Battery, "second port: "+strings.SplitN(get(e.p1, "/ok", ""), ":", 2)[0])
			}
			if h.Final == "V2-rolled-log" {
				// the battery above made 7 requests to the logged site (the last one to the other port is refused)
				b, _ := os.ReadFile(filepath.Join(dir, "access.log"))
				res.Battery = append(res.Battery, fmt.Sprintf("access.log grew by %d lines during the battery", strings.Count(string(b), "\n")-logBefore))
			}
		}
	case <-time.After(90 * time.Second):
		res.FinalErr = "HANG: the final valid configuration did not load in 90 s"
		res.FinalMs = 90000
	}
	out, _ := json.Marshal(res)
	fmt.Printf("\nCHILD %s\n", out)
	os.Exit(0)
}

// ---------------- parent ----------------

type c08case struct {
	History history     `json:"history"`
	Result  childResult `json:"observed"`
	Fresh   []string    `json:"fresh_process_battery,omitempty"`
}

// runChild runs one history in a process of its own; a child that dies without a
// result (e.g. an ephemeral port taken by a sibling between probing and binding) is retried.
func runChild(h history) (r childResult, err error) {
	for try := 0; try < 4; try++ {
		r, err = runChildOnce(h)
		if err == nil {
			return
		}
	}
	return
}

// loaderFails is the text that makes the Casketfile loader of the child report an error.
const loaderFails = "!the-loader-fails"

// crashErr: the child process was terminated by a panic.
type crashErr string

func (c crashErr) Error() string { return "process terminated: " + string(c) }

var portSeq atomic.Int64

// laneBase is the first port of the 256-port lane this run owns: the run holds a listener on that port from start to end, so
// that another run of this check on the same machine (the other tier, a seeded tree) takes another lane.
var laneBase int

func acquireLane() (net.Listener, error) {
	for k := 0; k < 45; k++ {
		base := 20000 + ((os.Getpid()+k)%45)*256
		if l, err := net.Listen("tcp", fmt.Sprintf("127.0.0.1:%d", base)); err == nil {
			laneBase = base
			return l, nil
		}
	}
	return nil, fmt.Errorf("no free lane of loopback ports between 20000 and 31520")
}

func runChildOnce(h history) (childResult, error) {
	hj, _ := json.Marshal(h)
	// every child gets four ports of its own below the ephemeral range
	// every child gets four ports of its own inside this run's lane (see acquireLane); a block with a port in use is skipped
	var base int
	for try := 0; try < 63; try++ {
		base = laneBase + 4 + int(portSeq.Add(1)%63)*4
		free := true
		for p := base; p < base+4; p++ {
			if l, err := net.Listen("tcp", fmt.Sprintf("127.0.0.1:%d", p)); err == nil {
				l.Close()
			} else {
				free = false
			}
		}
		if free {
			break
		}
	}
	cmd := exec.Command(os.Args[0], "-history", string(hj), "-portbase", fmt.Sprint(base))
	cmd.Env = append(os.Environ(), "CASKETPATH="+os.Getenv("TMPDIR"))
	out, err := cmd.Output()
	var r childResult
	i := strings.LastIndex(string(out), "CHILD {")
	if i < 0 {
		if ee, ok := err.(*exec.ExitError); ok {
			// a Go process that ends with a panic (also one in a goroutine, which nothing can recover) exits with status 2
			for _, l := range strings.Split(string(ee.Stderr), "\n") {
				if strings.HasPrefix(l, "panic:") || strings.HasPrefix(l, "fatal error:") {
					return r, crashErr(l)
				}
			}
		}
		return r, fmt.Errorf("child produced no result (err=%v): %.300s", err, out)
	}
	line := string(out)[i+6:]
	if j := strings.IndexByte(line, '\n'); j >= 0 {
		line = line[:j]
	}
	if err := json.Unmarshal([]byte(line), &r); err != nil {
		return r, err
	}
	return r, nil
}

func hung(r childResult) bool {
	if strings.HasPrefix(r.FinalErr, "HANG") {
		return true
	}
	for _, st := range r.Steps {
		if strings.HasPrefix(st.Err, "HANG") {
			return true
		}
	}
	return false
}

func main() {
	flag.Parse()
	if *flagHistory != "" {
		var h history
		if err := json.Unmarshal([]byte(*flagHistory), &h); err != nil {
			panic(err)
		}
		child(h)
		return
	}
	rep := kit.NewReport("C08", "model_checking",
		"every history of <=2 (thorough 3) attempts over {validate, Instance.Restart, real SIGUSR1} x {16 failing configurations (one per failure kind and stage), 5 valid ones}, each followed by each of 5 valid final configurations, one child process per history; after every failed attempt: listening sockets (inodes and descriptor count), running site and event hooks unchanged; the final configuration must load within the backstop and answer a battery exactly as in a fresh process; distinct_nontrivial = distinct histories classes")
	lane, err := acquireLane()
	if err != nil {
		rep.Broken("%v", err)
	}
	defer lane.Close()
	failing := []string{"F1-syntax", "F2-unknown-directive", "F3-htpasswd-missing", "F3b-htpasswd-malformed", "F4-log-bad-roller", "F5-proxy-bad-second", "F6-tls-missing-cert", "F7-on-after-valid-on", "F8-missing-import", "F9-port-in-use", "F10-startup-callback-fails", "F11-late-setup-error-after-log-and-on", "F12-udp-port-in-use", "F13-htpasswd-user-missing", "F14-casketfile-unreadable"}
	valid := []string{"V1-htpasswd", "V2-rolled-log", "V3-on", "V4-two-listeners", "V5-htpasswd-late"}
	kinds := []string{"validate", "restart", "sigusr1"}
	var atts []attempt
	for _, k := range kinds {
		for _, f := range failing {
			if strings.HasPrefix(f, "F14-") && k != "sigusr1" {
				continue
			}
			atts = append(atts, attempt{k, f})
		}
	}
	for _, k := range []string{"restart", "sigusr1"} {
		for _, v := range valid {
			atts = append(atts, attempt{k, v})
		}
	}
	var hs []history
	for _, fin := range valid {
		hs = append(hs, history{nil, fin}) // fresh-process references
	}
	// depth 1: everything x every final
	for _, a := range atts {
		for _, fin := range valid {
			hs = append(hs, history{[]attempt{a}, fin})
		}
	}
	// depth 2: every ordered pair; the final configuration is the one that uses the state the attempts touch, plus V4
	for _, a := range atts {
		for _, b := range atts {
			if !rep.Thorough() && a.Kind == "validate" && b.Kind == "validate" {
				continue
			}
			fins := []string{valid[(len(a.Config)+len(b.Config))%4]}
			if rep.Thorough() {
				fins = valid
			}
			for _, fin := range fins {
				hs = append(hs, history{[]attempt{a, b}, fin})
			}
		}
	}
	rep.Set("histories", len(hs))
	fresh := map[string][]string{}
	var mu sync.Mutex
	results := make([]childResult, len(hs))
	errs := make([]error, len(hs))
	kit.Parallel(len(hs), func(i int) bool {
		if rep.Expired() {
			rep.Capped("deadline")
			return false
		}
		r, err := runChild(hs[i])
		// a history that hit a backstop is only believed if it does so again, twice, in fresh processes
		for again := 0; again < 2 && err == nil && hung(r); again++ {
			rep.AddInt("backstop_reruns", 1)
			r2, err2 := runChild(hs[i])
			if err2 != nil || !hung(r2) {
				r, err = r2, err2
				break
			}
		}
		results[i], errs[i] = r, err
		rep.Eval(1)
		if len(hs[i].Attempts) == 0 && err == nil {
			mu.Lock()
			fresh[hs[i].Final] = r.Battery
			mu.Unlock()
		}
		return true
	})
	states := map[string]bool{}
	transitions := 0
	for i, h := range hs {
		if ce, ok := errs[i].(crashErr); ok {
			// (four processes in a row ended that way: see runChild)
			last := "start"
			if len(h.Attempts) > 0 {
				last = h.Attempts[len(h.Attempts)-1].Kind + "/" + h.Attempts[len(h.Attempts)-1].Config
			}
			rep.Violation("C08/process-terminated/after="+last, "the history ended the whole process: "+string(ce), c08case{History: h})
			continue
		}
		if errs[i] != nil {
			rep.Broken("history %v: %v", h, errs[i])
		}
		r := results[i]
		for _, st := range r.Steps {
			transitions++
			states[fmt.Sprintf("%s/%s/%v", st.Attempt.Kind, st.Attempt.Config, st.Accepted)] = true
			expectOK := strings.HasPrefix(st.Attempt.Config, "V")
			if st.Attempt.Kind == "validate" && (strings.HasPrefix(st.Attempt.Config, "F9-") || strings.HasPrefix(st.Attempt.Config, "F10-") || strings.HasPrefix(st.Attempt.Config, "F12-")) {
				expectOK = true // validation neither binds ports nor runs startup callbacks
			}
			if strings.HasPrefix(st.Err, "HANG") {
				rep.Violation("C08/hang/"+st.Attempt.Kind+"/"+st.Attempt.Config, st.Err, c08case{h, r, nil})
				continue
			}
			if st.Accepted != expectOK {
				// a valid configuration rejected after earlier failures, or a failing one accepted
				prior := "after-earlier-attempts"
				if len(r.Steps) > 0 && r.Steps[0].Attempt == st.Attempt {
					prior = "first-attempt"
				}
				rep.Violation("C08/unexpected-outcome/"+st.Attempt.Config+"/"+prior, fmt.Sprintf("%s of %s: accepted=%v (%s)", st.Attempt.Kind, st.Attempt.Config, st.Accepted, st.Err), c08case{h, r, nil})
			}
			for _, p := range st.Problems {
				kind := "running-site-disturbed"
				switch {
				case strings.HasPrefix(p, "listening sockets"):
					kind = "listening-socket-left-behind"
				case strings.HasPrefix(p, "descriptors"):
					kind = "listener-descriptor-left-behind"
				case strings.HasPrefix(p, "event hooks"):
					kind = "event-hooks-changed"
				case strings.HasPrefix(p, "instance list"):
					kind = "discarded-instance-left-in-instance-list"
				}
				rep.Violation("C08/"+kind+"/"+st.Attempt.Kind+"/"+st.Attempt.Config, p, c08case{h, r, nil})
			}
		}
		transitions++
		if !r.FinalOK {
			kind := "final-valid-config-rejected"
			if strings.HasPrefix(r.FinalErr, "HANG") {
				kind = "final-valid-config-hangs"
			}
			names := ""
			for _, a := range h.Attempts {
				names += "/" + a.Config
			}
			rep.Violation("C08/"+kind+"/after"+names, fmt.Sprintf("final %s: %s", h.Final, r.FinalErr), c08case{h, r, nil})
			continue
		}
		if f, ok := fresh[h.Final]; ok && len(h.Attempts) > 0 && strings.Join(f, "|") != strings.Join(r.Battery, "|") {
			names := ""
			for _, a := range h.Attempts {
				if !strings.HasPrefix(a.Config, "V") || a.Kind == "validate" {
					names += "/" + a.Config
				}
			}
			rep.Violation("C08/final-config-behaves-differently-than-in-a-fresh-process/"+h.Final+"/after"+names, fmt.Sprintf("battery %v, fresh process %v", r.Battery, f), c08case{h, r, f})
		}
		depth := len(h.Attempts)
		nf := 0
		for _, st := range r.Steps {
			if !st.Accepted {
				nf++
			}
		}
		rep.Class(fmt.Sprintf("history/depth=%d/failed-attempts=%d/final=%s", depth, nf, h.Final))
	}
	rep.Set("states", len(states)+len(fresh))
	rep.Set("transitions", transitions)
	rep.Set("traces_validated_against_impl", len(hs))
	rep.Set("trace_validation", "every history is executed on the real implementation in a process of its own (real casket.Start, Instance.Restart, SIGUSR1 to the process, loopback sockets)")
	rep.Sample(hs[len(hs)/2])
	rep.Sample(hs[len(hs)-1])
	rep.Assume("absence of background activity (e.g. health checks of a discarded upstream) is not observed; shutdown-callback side effects of discarded instances are C16's")
	rep.Finish()
}
