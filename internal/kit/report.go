// Package kit is the shared harness kit: evidence/violation plumbing, site
// loader, strict response writer, raw requests, fixtures.
package kit

import (
	"bytes"
	"context"
	"encoding/json"
	"flag"
	"fmt"
	"os"
	"os/exec"
	"path/filepath"
	"runtime/pprof"
	"sort"
	"strconv"
	"sync"
	"sync/atomic"
	"time"
)

// VerifDir is the root of the verification tree (evidence, replays, known findings).
var VerifDir = func() string {
	if d := os.Getenv("VERIF_DIR"); d != "" {
		return d
	}
	return "/verif"
}()

var (
	FlagTier   = flag.String("tier", envOr("VERIF_TIER", "quick"), "quick|thorough")
	FlagReplay = flag.String("replay", "", "replay file")
	FlagBudget = flag.Duration("budget", 0, "internal deadline (0 = tier default)")
	FlagWorker = flag.Int("worker", -1, "worker index (internal)")
	FlagNWork  = flag.Int("nworkers", 0, "number of workers (internal)")
)

func envOr(k, d string) string {
	if v := os.Getenv(k); v != "" {
		return v
	}
	return d
}

// Seed returns VERIF_SEED (recorded only; no check draws random numbers).
func Seed() int {
	n, _ := strconv.Atoi(os.Getenv("VERIF_SEED"))
	return n
}

type knownFile struct {
	Findings []KnownFinding `json:"findings"`
	Fixed    []string       `json:"fixed"`
}

// KnownFinding is one entry of /verif/known_findings.json.
type KnownFinding struct {
	Property  string `json:"property"`
	Signature string `json:"signature"`
	What      string `json:"what"`
}

type vio struct {
	Sig    string      `json:"signature"`
	What   string      `json:"what"`
	Case   interface{} `json:"case"`
	Count  int64       `json:"count"`
	Replay string      `json:"replay,omitempty"`
	Exact  bool        `json:"exact,omitempty"` // replay mode: the recorded case itself failed again
}

// replayReq is a recorded violation to look for again (-replay <file>): the
// same tier's enumeration is re-run from the current tree and only the
// recorded signature is reported; Exact says whether the recorded case itself
// (not merely another case of the same class) failed again.
type replayReq struct {
	Path string
	Sig  string
	Case string
}

func canonJSON(v interface{}) string {
	a, err := json.Marshal(v)
	if err != nil {
		return ""
	}
	var x interface{}
	if json.Unmarshal(a, &x) != nil {
		return string(a)
	}
	b, _ := json.Marshal(x)
	return string(b)
}

// Report collects what one run of one check covered and found.
type Report struct {
	ID    string
	Tier  string
	Level string
	Rule  string

	start         time.Time
	deadline      time.Time
	evals         atomic.Int64
	mu            sync.Mutex
	classes       map[string]int64
	samples       []interface{}
	vios          map[string]*vio
	vioOrder      []string
	Extra         map[string]interface{}
	Assumptions   []string
	exhaustive    bool
	capNote       string
	known         map[string]KnownFinding
	knownSeen     map[string]int64
	maxSamples    int
	replay        *replayReq
	MaxParallel   int      // RunWorkers: at most this many worker processes at a time (0 = all at once)
	crash         string   // worker: panic caught by Guard
	FailedWorkers []int    // indices of workers that died without a report
	workerFail    []string // workers that died without a report; judged in Finish after the others were merged
}

// NewReport parses flags and starts a report for property id.
func NewReport(id, level, rule string) *Report {
	if !flag.Parsed() {
		flag.Parse()
	}
	r := &Report{ID: id, Tier: *FlagTier, Level: level, Rule: rule, start: time.Now(),
		classes: map[string]int64{}, vios: map[string]*vio{}, Extra: map[string]interface{}{},
		exhaustive: true, known: map[string]KnownFinding{}, knownSeen: map[string]int64{}, maxSamples: 6}
	if *FlagReplay != "" {
		data, err := os.ReadFile(*FlagReplay)
		var f struct {
			Property, Signature, Tier string
			Case                      interface{}
		}
		if err == nil {
			err = json.Unmarshal(data, &f)
		}
		if err != nil || f.Property != id || f.Signature == "" {
			fmt.Fprintf(os.Stderr, "replay file %s: unusable for %s (%v)\n", *FlagReplay, id, err)
			os.Exit(2)
		}
		r.replay = &replayReq{Path: *FlagReplay, Sig: f.Signature, Case: canonJSON(f.Case)}
		if f.Tier == "quick" || f.Tier == "thorough" {
			r.Tier = f.Tier
		}
	}
	if r.Tier != "quick" && r.Tier != "thorough" {
		fmt.Fprintf(os.Stderr, "bad tier %q\n", r.Tier)
		os.Exit(2)
	}
	b := *FlagBudget
	if b == 0 {
		if r.Tier == "quick" {
			b = 4 * time.Minute
		} else {
			b = 40 * time.Minute
		}
	}
	r.deadline = r.start.Add(b)
	if pf := os.Getenv("VERIF_PROF"); pf != "" {
		f, _ := os.Create(pf)
		pprof.StartCPUProfile(f)
		profStop = func() { pprof.StopCPUProfile(); f.Close() }
	}
	var kf knownFile
	kfDir := VerifDir // the committed file next to the checks, also when output goes elsewhere (VERIF_OUT)
	if src := os.Getenv("VERIF_SRC"); src != "" {
		kfDir = src
	}
	if data, err := os.ReadFile(filepath.Join(kfDir, "known_findings.json")); err == nil {
		if err := json.Unmarshal(data, &kf); err != nil {
			fmt.Fprintf(os.Stderr, "known_findings.json: %v\n", err)
			os.Exit(2)
		}
	}
	for _, k := range kf.Findings {
		if k.Property == id {
			r.known[k.Signature] = k
		}
	}
	return r
}

// Thorough reports whether the thorough tier was requested.
func (r *Report) Thorough() bool { return r.Tier == "thorough" }

// Expired reports whether the internal deadline has passed; a check that
// stops because of it must call Capped.
func (r *Report) Expired() bool { return time.Now().After(r.deadline) }

// Capped records that the run did not finish its space.
func (r *Report) Capped(note string) {
	r.mu.Lock()
	r.exhaustive = false
	if r.capNote == "" {
		r.capNote = note
	}
	r.mu.Unlock()
}

// Eval counts n evaluated cases.
func (r *Report) Eval(n int) { r.evals.Add(int64(n)) }

// Evals returns the number of evaluations so far.
func (r *Report) Evals() int64 { return r.evals.Load() }

// Class counts one case in an outcome class.
func (r *Report) Class(c string) {
	r.mu.Lock()
	r.classes[c]++
	r.mu.Unlock()
}

// ClassN merges a locally collected class histogram.
func (r *Report) ClassN(m map[string]int64) {
	r.mu.Lock()
	for k, v := range m {
		r.classes[k] += v
	}
	r.mu.Unlock()
}

// Classes returns the number of distinct outcome classes.
func (r *Report) Classes() int {
	r.mu.Lock()
	defer r.mu.Unlock()
	return len(r.classes)
}

// Sample stores an actual case (first few only).
func (r *Report) Sample(s interface{}) {
	r.mu.Lock()
	if len(r.samples) < r.maxSamples {
		r.samples = append(r.samples, s)
	}
	r.mu.Unlock()
}

// Assume records an assumption.
func (r *Report) Assume(s string) {
	r.mu.Lock()
	r.Assumptions = append(r.Assumptions, s)
	r.mu.Unlock()
}

// Set stores an extra coverage key.
func (r *Report) Set(k string, v interface{}) {
	r.mu.Lock()
	r.Extra[k] = v
	r.mu.Unlock()
}

// AddInt adds n to an extra integer coverage key.
func (r *Report) AddInt(k string, n int64) {
	r.mu.Lock()
	cur, _ := r.Extra[k].(int64)
	r.Extra[k] = cur + n
	r.mu.Unlock()
}

// Violation records a property violation with a class-level signature (the
// oracle clause and call site that failed) and the concrete failing case.
// Only the first case per signature is kept as a replay artefact.
func (r *Report) Violation(sig, what string, c interface{}) {
	r.mu.Lock()
	defer r.mu.Unlock()
	if r.replay != nil {
		if sig != r.replay.Sig {
			return
		}
		v := r.vios[sig]
		if v == nil {
			v = &vio{Sig: sig, What: what, Case: c}
			r.vios[sig] = v
			r.vioOrder = append(r.vioOrder, sig)
		}
		v.Count++
		if !v.Exact && canonJSON(c) == r.replay.Case {
			v.Exact, v.Case, v.What = true, c, what
		}
		return
	}
	if _, ok := r.known[sig]; ok {
		r.knownSeen[sig]++
		return
	}
	v := r.vios[sig]
	if v == nil {
		v = &vio{Sig: sig, What: what, Case: c}
		r.vios[sig] = v
		r.vioOrder = append(r.vioOrder, sig)
	}
	v.Count++
}

// ViolationCount returns the number of distinct unlisted violation signatures.
func (r *Report) ViolationCount() int {
	r.mu.Lock()
	defer r.mu.Unlock()
	return len(r.vios)
}

// Broken ends the run because the check itself cannot be trusted.
func (r *Report) Broken(format string, a ...interface{}) {
	if r.ViolationCount() > 0 && r.replay == nil {
		// the harness cannot go on, but what it has found so far stands: report that (the run counts as capped)
		fmt.Printf("NOTE property=%s the check stopped early: %s\n", r.ID, fmt.Sprintf(format, a...))
		r.Capped("stopped early: " + fmt.Sprintf(format, a...))
		r.Finish()
	}
	fmt.Printf("CHECK-BROKEN property=%s %s\n", r.ID, fmt.Sprintf(format, a...))
	os.Exit(2)
}

var profStop = func() {}

// IsWorker reports whether this process is a worker subprocess.
func (r *Report) IsWorker() bool { return *FlagWorker >= 0 }

// Mine reports whether item i belongs to this worker's shard.
func (r *Report) Mine(i int) bool { return *FlagNWork <= 1 || i%*FlagNWork == *FlagWorker }

type partial struct {
	Evals      int64                  `json:"evals"`
	Classes    map[string]int64       `json:"classes"`
	Samples    []interface{}          `json:"samples"`
	Vios       []*vio                 `json:"vios"`
	Known      map[string]int64       `json:"known"`
	Ints       map[string]int64       `json:"ints"`
	Other      map[string]interface{} `json:"other"`
	Capped     string                 `json:"capped"`
	Exhaustive bool                   `json:"exhaustive"`
	Assume     []string               `json:"assume"`
	Crash      string                 `json:"crash,omitempty"`
}

func (r *Report) emitPartial() {
	p := partial{Crash: r.crash, Evals: r.evals.Load(), Classes: r.classes, Samples: r.samples, Known: r.knownSeen, Ints: map[string]int64{}, Other: map[string]interface{}{}, Capped: r.capNote, Exhaustive: r.exhaustive, Assume: r.Assumptions}
	for _, sig := range r.vioOrder {
		p.Vios = append(p.Vios, r.vios[sig])
	}
	for k, v := range r.Extra {
		if n, ok := v.(int64); ok {
			p.Ints[k] = n
		} else {
			p.Other[k] = v
		}
	}
	data, err := json.Marshal(p)
	if err != nil {
		fmt.Fprintf(os.Stderr, "partial marshal: %v\n", err)
		os.Exit(2)
	}
	os.Stdout.Write([]byte("\nPARTIAL "))
	os.Stdout.Write(data)
	os.Stdout.Write([]byte("\n"))
	os.Exit(0)
}

// RunWorkers re-executes this binary n times as worker subprocesses
// (-worker k -nworkers n), waits for them and merges their partial reports.
// Used by checks whose engine has process-global state (the E2 scheduler) or
// whose code under test may hang or exhaust memory.
func (r *Report) RunWorkers(n int, extraArgs ...string) {
	type res struct {
		k   int
		out []byte
		err error
	}
	ch := make(chan res, n)
	par := r.MaxParallel
	if par <= 0 || par > n {
		par = n
	}
	sem := make(chan struct{}, par)
	for k := 0; k < n; k++ {
		go func(k int) {
			sem <- struct{}{}
			defer func() { <-sem }()
			if time.Until(r.deadline) < time.Second {
				ch <- res{k, []byte("PARTIAL {\"exhaustive\":false,\"capped\":\"deadline reached before this shard was started\"}\n"), nil}
				return
			}
			args := []string{"-tier", r.Tier, "-budget", time.Until(r.deadline).String(), "-worker", strconv.Itoa(k), "-nworkers", strconv.Itoa(n)}
			args = append(args, extraArgs...)
			if r.replay != nil {
				args = append(args, "-replay", r.replay.Path)
			}
			// a worker that is still running three minutes after its own deadline is killed
			ctx, cancel := context.WithTimeout(context.Background(), time.Until(r.deadline)+3*time.Minute)
			cmd := exec.CommandContext(ctx, os.Args[0], args...)
			cmd.Stderr = os.Stderr
			cmd.WaitDelay = 5 * time.Second
			out, err := cmd.Output()
			if ctx.Err() == context.DeadlineExceeded && !bytes.Contains(out, []byte("PARTIAL {")) {
				// stopped by the limit above without having reported (an overloaded machine): the shard counts as not explored
				out = append(out, []byte(fmt.Sprintf("\nPARTIAL {\"exhaustive\":false,\"capped\":\"worker %d was stopped three minutes after the deadline without a report; its shard counts as not explored\"}\n", k))...)
			}
			cancel()
			ch <- res{k, out, err}
		}(k)
	}
	for i := 0; i < n; i++ {
		x := <-ch
		var p partial
		found := false
		// the code under test may print to stdout: take the last PARTIAL record wherever it starts
		if i := bytes.LastIndex(x.out, []byte("PARTIAL {")); i >= 0 {
			line := x.out[i+8:]
			if j := bytes.IndexByte(line, '\n'); j >= 0 {
				line = line[:j]
			}
			if err := json.Unmarshal(line, &p); err != nil {
				r.workerFail = append(r.workerFail, fmt.Sprintf("worker %d: bad partial: %v", x.k, err))
				continue
			}
			found = true
		}
		if !found {
			tail := x.out
			if len(tail) > 2000 {
				tail = tail[len(tail)-2000:]
			}
			r.workerFail = append(r.workerFail, fmt.Sprintf("worker %d produced no report (err=%v): %s", x.k, x.err, tail))
			r.FailedWorkers = append(r.FailedWorkers, x.k)
			continue
		}
		r.mu.Lock()
		if p.Crash != "" {
			r.workerFail = append(r.workerFail, fmt.Sprintf("worker %d crashed after reporting what it had found: %s", x.k, p.Crash))
		}
		r.evals.Add(p.Evals)
		for k, v := range p.Classes {
			r.classes[k] += v
		}
		for _, s := range p.Samples {
			if len(r.samples) < r.maxSamples {
				r.samples = append(r.samples, s)
			}
		}
		for _, v := range p.Vios {
			if cur := r.vios[v.Sig]; cur != nil {
				cur.Count += v.Count
				if v.Exact && !cur.Exact {
					cur.Exact, cur.Case, cur.What = true, v.Case, v.What
				}
			} else {
				r.vios[v.Sig] = v
				r.vioOrder = append(r.vioOrder, v.Sig)
			}
		}
		for k, v := range p.Known {
			r.knownSeen[k] += v
		}
		for k, v := range p.Ints {
			cur, _ := r.Extra[k].(int64)
			r.Extra[k] = cur + v
		}
		for k, v := range p.Other {
			r.Extra[k] = v
		}
		if !p.Exhaustive {
			r.exhaustive = false
			if r.capNote == "" {
				r.capNote = p.Capped
			}
		}
		for _, a := range p.Assume {
			dup := false
			for _, b := range r.Assumptions {
				if a == b {
					dup = true
				}
			}
			if !dup {
				r.Assumptions = append(r.Assumptions, a)
			}
		}
		r.mu.Unlock()
	}
	sort.Strings(r.vioOrder)
}

// Guard runs f and, in a worker, turns a panic into a crash note of the partial report so that what the
// worker had found before is not lost; the parent then reports the run as broken unless a violation was found.
func (r *Report) Guard(f func()) {
	defer func() {
		if v := recover(); v != nil {
			if !r.IsWorker() {
				panic(v)
			}
			r.crash = fmt.Sprint(v)
			r.exhaustive = false
			r.Finish()
		}
	}()
	f()
}

// Finish writes the evidence file, prints KNOWN-FINDING / VIOLATION lines and exits.
func (r *Report) Finish() {
	profStop()
	r.mu.Lock()
	defer r.mu.Unlock()
	if r.IsWorker() {
		r.emitPartial()
	}
	wall := time.Since(r.start).Seconds()
	if len(r.workerFail) > 0 {
		r.exhaustive = false
		if r.capNote == "" {
			r.capNote = fmt.Sprintf("%d worker(s) failed", len(r.workerFail))
		}
	}
	if r.replay != nil {
		// a replay neither rewrites the evidence nor the replay files
		v := r.vios[r.replay.Sig]
		if v == nil {
			fmt.Printf("REPLAY property=%s signature=%q not reproduced (%d evaluations, tier=%s, wall=%.1fs)\n", r.ID, r.replay.Sig, r.evals.Load(), r.Tier, wall)
			os.Exit(0)
		}
		data, _ := json.MarshalIndent(v.Case, "", " ")
		fmt.Printf("REPLAY property=%s signature=%q reproduced: recorded-case-failed-again=%v cases-with-this-signature=%d\n%s\ncase: %s\n", r.ID, v.Sig, v.Exact, v.Count, v.What, data)
		fmt.Printf("VIOLATION property=%s replay=%s signature=%q count=%d :: %s\n", r.ID, r.replay.Path, v.Sig, v.Count, v.What)
		os.Exit(1)
	}
	nontrivial := 0
	for range r.classes {
		nontrivial++
	}
	if v, ok := r.Extra["distinct_nontrivial"]; ok {
		switch x := v.(type) {
		case int:
			nontrivial = x
		case int64:
			nontrivial = int(x)
		}
		delete(r.Extra, "distinct_nontrivial")
	}
	cov := map[string]interface{}{
		"evaluations":         r.evals.Load(),
		"distinct_nontrivial": nontrivial,
		"rule":                r.Rule,
		"samples":             r.samples,
		"exhaustive":          r.exhaustive,
		"outcome_classes":     len(r.classes),
	}
	if len(r.classes) <= 60 {
		cov["outcome_class_histogram"] = r.classes
	} else {
		type kv struct {
			k string
			v int64
		}
		var l []kv
		for k, v := range r.classes {
			l = append(l, kv{k, v})
		}
		sort.Slice(l, func(i, j int) bool { return l[i].v > l[j].v || (l[i].v == l[j].v && l[i].k < l[j].k) })
		top := map[string]int64{}
		for i := 0; i < 40 && i < len(l); i++ {
			top[l[i].k] = l[i].v
		}
		cov["outcome_class_histogram_top40"] = top
	}
	if r.capNote != "" {
		cov["cap"] = r.capNote
	}
	for k, v := range r.Extra {
		cov[k] = v
	}
	if len(r.samples) == 0 {
		cov["samples"] = []interface{}{"(no sample recorded)"}
	}
	var kn []string
	for sig, n := range r.knownSeen {
		kn = append(kn, fmt.Sprintf("%s x%d", sig, n))
	}
	sort.Strings(kn)
	if len(kn) > 0 {
		cov["known_findings_observed"] = kn
	}
	// replay artefacts
	os.MkdirAll(filepath.Join(VerifDir, "replays"), 0o755)
	if old, _ := filepath.Glob(filepath.Join(VerifDir, "replays", r.ID+"-*.json")); len(old) > 0 {
		for _, f := range old {
			os.Remove(f)
		}
	}
	var vlist []*vio
	for i, sig := range r.vioOrder {
		v := r.vios[sig]
		p := filepath.Join(VerifDir, "replays", fmt.Sprintf("%s-%d.json", r.ID, i+1))
		data, _ := json.MarshalIndent(map[string]interface{}{"property": r.ID, "signature": v.Sig, "what": v.What, "count": v.Count, "case": v.Case, "tier": r.Tier}, "", " ")
		os.WriteFile(p, data, 0o644)
		v.Replay = p
		vlist = append(vlist, v)
	}
	if len(vlist) > 0 {
		var vs []map[string]interface{}
		for _, v := range vlist {
			vs = append(vs, map[string]interface{}{"signature": v.Sig, "what": v.What, "count": v.Count, "replay": v.Replay})
		}
		cov["violation_list"] = vs
	}
	ev := map[string]interface{}{
		"property_id": r.ID,
		"tier":        r.Tier,
		"seed":        Seed(),
		"level":       r.Level,
		"coverage":    cov,
		"assumptions": append([]string{}, r.Assumptions...),
		"wall_s":      wall,
		"violations":  len(vlist),
	}
	data, err := json.MarshalIndent(ev, "", " ")
	if err != nil {
		fmt.Printf("CHECK-BROKEN property=%s evidence marshal: %v\n", r.ID, err)
		os.Exit(2)
	}
	os.MkdirAll(filepath.Join(VerifDir, "evidence"), 0o755)
	if err := os.WriteFile(filepath.Join(VerifDir, "evidence", r.ID+".json"), data, 0o644); err != nil {
		fmt.Printf("CHECK-BROKEN property=%s evidence write: %v\n", r.ID, err)
		os.Exit(2)
	}
	fmt.Printf("%s tier=%s evaluations=%d classes=%d exhaustive=%v wall=%.1fs\n", r.ID, r.Tier, r.evals.Load(), len(r.classes), r.exhaustive, wall)
	var sigs []string
	for sig := range r.knownSeen {
		sigs = append(sigs, sig)
	}
	sort.Strings(sigs)
	for _, sig := range sigs {
		fmt.Printf("KNOWN-FINDING: property=%s %s [%s] (%d cases)\n", r.ID, r.known[sig].What, sig, r.knownSeen[sig])
	}
	for _, v := range vlist {
		fmt.Printf("VIOLATION property=%s replay=%s signature=%q count=%d :: %s\n", r.ID, v.Replay, v.Sig, v.Count, v.What)
	}
	for _, m := range r.workerFail {
		if len(m) > 1500 {
			m = m[:1500] + "..."
		}
		fmt.Printf("WORKER-FAILED property=%s %s\n", r.ID, m)
	}
	if len(vlist) > 0 {
		os.Exit(1)
	}
	if len(r.workerFail) > 0 {
		fmt.Printf("CHECK-BROKEN property=%s %d worker(s) failed\n", r.ID, len(r.workerFail))
		os.Exit(2)
	}
	if r.evals.Load() == 0 {
		fmt.Printf("CHECK-BROKEN property=%s no evaluations\n", r.ID)
		os.Exit(2)
	}
	if len(r.classes) < 2 && r.Extra["allow_single_class"] == nil {
		fmt.Printf("CHECK-BROKEN property=%s vacuous: %d outcome classes\n", r.ID, len(r.classes))
		os.Exit(2)
	}
	os.Exit(0)
}
